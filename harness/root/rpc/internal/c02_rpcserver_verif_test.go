//go:build verif

package internal

// C02 — unary RPC half, through a real server: rpc/internal.NewServer + Start over
// a loopback listener (interceptor chain built by Start, timeout interceptor added
// through AddUnaryInterceptors as rpc.setupInterceptors does), a scripted
// implementation of the mock Deposit service, and a plain grpc client.

import (
	"context"
	"errors"
	"fmt"
	"io"
	"net"
	"strings"
	"sync"
	"sync/atomic"
	"testing"
	"time"

	"github.com/gotid/god/lib/logx"
	"github.com/gotid/god/lib/stat"
	"github.com/gotid/god/rpc/internal/mock"
	"github.com/gotid/god/rpc/internal/serverinterceptors"
	"google.golang.org/grpc"
	"google.golang.org/grpc/codes"
	"google.golang.org/grpc/credentials/insecure"
	"google.golang.org/grpc/status"
	"verif.local/vk"
)

const (
	c02Watchdog = 30 * time.Second
	c02Patience = 20 * time.Second
)

type c02Script struct {
	Kind string `json:"kind"` // fast late panic latepanic
	Code int    `json:"code"`
}

type c02Run struct {
	id      int64
	sc      c02Script
	gate    chan struct{}
	blocked chan struct{}
	done    chan struct{}
	entries int32
	once    [3]sync.Once
	mu      sync.Mutex
	ctxErr  string
}

func (r *c02Run) release() { r.once[0].Do(func() { close(r.gate) }) }

type c02Service struct {
	runs sync.Map
}

func (s *c02Service) Deposit(ctx context.Context, req *mock.DepositRequest) (*mock.DepositResponse, error) {
	v, ok := s.runs.Load(int64(req.GetAmount()))
	if !ok {
		return nil, status.Error(codes.OutOfRange, "c02: unknown run")
	}
	r := v.(*c02Run)
	atomic.AddInt32(&r.entries, 1)
	defer r.once[2].Do(func() { close(r.done) })
	wait := func(ch <-chan struct{}) {
		t := time.NewTimer(3 * c02Watchdog)
		defer t.Stop()
		select {
		case <-ch:
		case <-t.C:
		}
	}
	switch r.sc.Kind {
	case "late", "latepanic":
		wait(ctx.Done())
		r.mu.Lock()
		if e := ctx.Err(); e != nil {
			r.ctxErr = e.Error()
		}
		r.mu.Unlock()
		r.once[1].Do(func() { close(r.blocked) })
		wait(r.gate)
		if r.sc.Kind == "latepanic" {
			panic(fmt.Sprintf("c02 scripted late panic %d", r.id))
		}
	case "panic":
		panic(fmt.Sprintf("c02 scripted panic %d", r.id))
	}
	if r.sc.Code != 0 {
		return nil, status.Error(codes.Code(r.sc.Code), fmt.Sprintf("c02 handler error %d", r.id))
	}
	return &mock.DepositResponse{Ok: true}, nil
}

// c02StreamDesc is a hand-written bidirectional streaming method served by the
// same scripted service: the first message names the run.
var c02StreamDesc = grpc.ServiceDesc{
	ServiceName: "c02.Stream",
	HandlerType: (*interface{})(nil),
	Streams: []grpc.StreamDesc{{StreamName: "Echo", ServerStreams: true, ClientStreams: true,
		Handler: func(srv interface{}, stream grpc.ServerStream) error {
			return srv.(*c02Service).echo(stream)
		}}},
}

func (s *c02Service) echo(stream grpc.ServerStream) error {
	var req mock.DepositRequest
	if err := stream.RecvMsg(&req); err != nil {
		return err
	}
	v, ok := s.runs.Load(int64(req.GetAmount()))
	if !ok {
		return status.Error(codes.OutOfRange, "c02: unknown run")
	}
	r := v.(*c02Run)
	atomic.AddInt32(&r.entries, 1)
	defer r.once[2].Do(func() { close(r.done) })
	switch r.sc.Kind {
	case "stream-panic":
		panic(fmt.Sprintf("c02 scripted stream panic %d", r.id))
	case "stream-send-panic":
		if err := stream.SendMsg(&mock.DepositResponse{Ok: true}); err != nil {
			return err
		}
		panic(fmt.Errorf("c02 scripted stream panic after send %d", r.id))
	}
	if r.sc.Code != 0 {
		return status.Error(codes.Code(r.sc.Code), fmt.Sprintf("c02 handler error %d", r.id))
	}
	return stream.SendMsg(&mock.DepositResponse{Ok: true})
}

type c02Live struct {
	userUnary, userStream, userOpt int64 // invocations of the user-supplied interceptors
	svc                            *c02Service
	gs                             *grpc.Server
	conn                           *grpc.ClientConn
	client                         mock.DepositServiceClient
	tmo                            time.Duration
	fails                          int64
}

func c02StartRPC(m *vk.M, tag string, timeout time.Duration) (*c02Live, bool) {
	for attempt := 0; attempt < 3; attempt++ {
		l, err := net.Listen("tcp", "127.0.0.1:0")
		if err != nil {
			m.Inconclusive("rpc server %s: no free port: %v", tag, err)
			return nil, false
		}
		addr := l.Addr().String()
		l.Close()
		lv := &c02Live{svc: &c02Service{}, tmo: timeout}
		s := NewServer(addr, WithMetrics(stat.NewMetrics("c02-"+tag)), WithHealth(tag == "long"))
		s.SetName("c02-" + tag)
		// user-supplied interceptors and options must add to the built-in guards, not replace them
		s.AddUnaryInterceptors(func(ctx context.Context, req interface{}, _ *grpc.UnaryServerInfo, h grpc.UnaryHandler) (interface{}, error) {
			atomic.AddInt64(&lv.userUnary, 1)
			return h(ctx, req)
		})
		s.AddUnaryInterceptors(serverinterceptors.UnaryTimeoutInterceptor(timeout))
		s.AddStreamInterceptors(func(srv interface{}, ss grpc.ServerStream, _ *grpc.StreamServerInfo, h grpc.StreamHandler) error {
			atomic.AddInt64(&lv.userStream, 1)
			return h(srv, ss)
		})
		s.AddOptions(grpc.MaxConcurrentStreams(256), grpc.UnaryInterceptor(func(ctx context.Context, req interface{}, _ *grpc.UnaryServerInfo, h grpc.UnaryHandler) (interface{}, error) {
			atomic.AddInt64(&lv.userOpt, 1)
			return h(ctx, req)
		}))
		registered := make(chan *grpc.Server, 1)
		failed := make(chan error, 1)
		go func() {
			failed <- s.Start(func(gs *grpc.Server) {
				mock.RegisterDepositServiceServer(gs, lv.svc)
				gs.RegisterService(&c02StreamDesc, lv.svc)
				registered <- gs
			})
		}()
		select {
		case lv.gs = <-registered:
		case err := <-failed:
			m.Note("rpc server %s: start attempt %d on %s failed: %v", tag, attempt, addr, err)
			continue
		case <-time.After(20 * time.Second):
			m.Inconclusive("rpc server %s: Start did not register within 20 s", tag)
			return nil, false
		}
		ctx, cancel := context.WithTimeout(context.Background(), 20*time.Second)
		conn, err := grpc.DialContext(ctx, addr, grpc.WithTransportCredentials(insecure.NewCredentials()), grpc.WithBlock())
		cancel()
		if err != nil {
			m.Inconclusive("rpc server %s: dial %s: %v", tag, addr, err)
			return nil, false
		}
		lv.conn, lv.client = conn, mock.NewDepositServiceClient(conn)
		return lv, true
	}
	m.Inconclusive("rpc server %s: could not be started", tag)
	return nil, false
}

func (lv *c02Live) stop() {
	lv.conn.Close()
	lv.gs.Stop()
}

type c02Out struct {
	resp *mock.DepositResponse
	err  error
}

var c02NextID int64

func (lv *c02Live) scenario(m *vk.M, tag string, sc c02Script) bool {
	run := &c02Run{id: atomic.AddInt64(&c02NextID, 1), sc: sc, gate: make(chan struct{}), blocked: make(chan struct{}), done: make(chan struct{})}
	lv.svc.runs.Store(run.id, run)
	defer lv.svc.runs.Delete(run.id)
	defer run.release()
	desc := fmt.Sprintf("case=0;server=%s;timeout=%v;run=%d;script=%s", tag, lv.tmo, run.id, vk.JSON(sc))
	ch := make(chan c02Out, 1)
	go func() {
		ctx, cancel := context.WithTimeout(context.Background(), 3*c02Watchdog)
		defer cancel()
		resp, err := lv.client.Deposit(ctx, &mock.DepositRequest{Amount: float32(run.id)})
		ch <- c02Out{resp, err}
	}()
	wait := func(d time.Duration) (c02Out, bool) {
		t := time.NewTimer(d)
		defer t.Stop()
		select {
		case o := <-ch:
			return o, true
		case <-t.C:
			return c02Out{}, false
		}
	}
	late := sc.Kind == "late" || sc.Kind == "latepanic"
	if late && atomic.LoadInt64(&c02Hangs) > 0 {
		m.Count("gated_skipped_after_hang", 1)
		return false
	}
	o, got := wait(c02Patience)
	if !got {
		if late {
			select {
			case <-run.blocked:
				// the server-side deadline fired (handler recorded ctx.Done()), the handler is
				// still parked on the harness gate, the client has no status after a generous
				// watchdog: the server answers only when the handler returns
				atomic.AddInt64(&c02Hangs, 1)
				var dump strings.Builder
				for _, gr := range vk.GoroutinesIn("serverinterceptors.") {
					if dump.Len() < 6000 {
						dump.WriteString(gr + "\n\n")
					}
				}
				m.Violate("C02:rpcserver:"+sc.Kind+":caller-blocked-until-handler-returns", desc, "server timeout %v: the handler observed ctx.Done() and is parked on the harness gate; %v later the client still has no status. Goroutines:\n%s", lv.tmo, c02Patience, dump.String())
				run.release()
				wait(c02Watchdog)
				return false
			default:
			}
			atomic.AddInt64(&c02Hangs, 1)
			m.Count("late_patience_expired", 1)
			run.release()
		}
		if o, got = wait(c02Watchdog); !got {
			m.Inconclusive("rpcserver %s: no result within the watchdog", sc.Kind)
			return false
		}
	}
	code := status.Code(o.err)
	for _, c := range []codes.Code{codes.DeadlineExceeded, codes.Internal, codes.Unavailable, codes.DataLoss, codes.Unimplemented} {
		if o.err != nil && code == c {
			atomic.AddInt64(&lv.fails, 1)
		}
	}
	if atomic.LoadInt32(&run.entries) == 0 && o.err != nil && atomic.LoadInt64(&lv.fails) > 0 && (code == codes.Unknown || code == codes.Unavailable) {
		// the method's breaker rejected the call (C01's subject)
		m.Count("breaker_reject_tolerated", 1)
		m.Case("rpcserver|tolerated", false)
		return false
	}
	violate := func(sig, format string, a ...any) bool {
		m.Violate("C02:rpcserver:"+sig, desc, "%s | client saw resp=%v err=%v", fmt.Sprintf(format, a...), o.resp, o.err)
		return false
	}
	switch sc.Kind {
	case "fast":
		if sc.Code == 0 {
			if o.err != nil || o.resp == nil || !o.resp.GetOk() {
				return violate("fast:not-handler-result", "handler returned (Ok:true, nil)")
			}
		} else if o.err == nil || code != codes.Code(sc.Code) || status.Convert(o.err).Message() != fmt.Sprintf("c02 handler error %d", run.id) {
			return violate("fast:not-handler-result", "handler returned status %v %q", codes.Code(sc.Code), fmt.Sprintf("c02 handler error %d", run.id))
		}
		m.Count("result_handler", 1)
	case "panic":
		if o.err == nil || code != codes.Internal {
			return violate("panic:not-internal", "handler panicked, want Internal")
		}
		m.Count("result_panic_internal", 1)
	case "late", "latepanic":
		if o.err == nil || code != codes.DeadlineExceeded || o.resp != nil {
			return violate(sc.Kind+":not-DeadlineExceeded", "handler blocked past ctx.Done() and was held until the client had its result; the client itself set no deadline near the server's")
		}
		m.Count("result_DeadlineExceeded", 1)
		run.release()
		t := time.NewTimer(c02Watchdog)
		select {
		case <-run.done:
		case <-t.C:
			m.Inconclusive("rpcserver %s: handler did not return after the gate opened", sc.Kind)
		}
		t.Stop()
		if sc.Kind == "latepanic" {
			m.Count("late_panics_survived", 1)
		}
	}
	if n := atomic.LoadInt32(&run.entries); n != 1 {
		return violate(sc.Kind+":handler-entries", "handler entered %d times for one call", n)
	}
	m.Case(fmt.Sprintf("rpcserver|%s|code=%d", sc.Kind, sc.Code), true)
	if m.WantSample() && sc.Kind != "fast" {
		if _, dup := c02Sampled.LoadOrStore(sc.Kind, true); !dup {
			m.Sample(map[string]any{"obs": "rpcserver", "server_timeout": lv.tmo.String(), "script": sc, "client_saw": fmt.Sprintf("resp=%v err=%v", o.resp, o.err)})
		}
	}
	return true
}

// behindParked: the server's single timeout-interceptor instance holds a call
// whose handler is parked on the harness gate after the client's own (short)
// deadline ended that call; a second, non-blocking call on the same server must
// be answered with its handler's result meanwhile.
func (lv *c02Live) behindParked(m *vk.M, tag string, short time.Duration) bool {
	if atomic.LoadInt64(&c02Hangs) > 0 {
		return false
	}
	first := &c02Run{id: atomic.AddInt64(&c02NextID, 1), sc: c02Script{Kind: "late"}, gate: make(chan struct{}), blocked: make(chan struct{}), done: make(chan struct{})}
	lv.svc.runs.Store(first.id, first)
	defer lv.svc.runs.Delete(first.id)
	defer first.release()
	ctx, cancel := context.WithTimeout(context.Background(), short)
	_, err := lv.client.Deposit(ctx, &mock.DepositRequest{Amount: float32(first.id)})
	cancel()
	if code := status.Code(err); code != codes.DeadlineExceeded && code != codes.Canceled {
		m.Inconclusive("rpcserver behind-parked: first call ended with %v", err)
		return false
	}
	atomic.AddInt64(&lv.fails, 1)
	t := time.NewTimer(c02Watchdog)
	defer t.Stop()
	select {
	case <-first.blocked:
	case <-t.C:
		m.Inconclusive("rpcserver behind-parked: first handler did not park (entries %d)", atomic.LoadInt32(&first.entries))
		return false
	}
	second := &c02Run{id: atomic.AddInt64(&c02NextID, 1), sc: c02Script{Kind: "fast"}, gate: make(chan struct{}), blocked: make(chan struct{}), done: make(chan struct{})}
	lv.svc.runs.Store(second.id, second)
	defer lv.svc.runs.Delete(second.id)
	type out struct {
		resp *mock.DepositResponse
		err  error
	}
	ch := make(chan out, 1)
	go func() {
		c2, cancel2 := context.WithTimeout(context.Background(), 3*c02Watchdog)
		defer cancel2()
		r, e := lv.client.Deposit(c2, &mock.DepositRequest{Amount: float32(second.id)})
		ch <- out{r, e}
	}()
	desc := fmt.Sprintf("case=0;server=%s;timeout=%v;first=%d(parked after client deadline %v);second=%d", tag, lv.tmo, first.id, short, second.id)
	p := time.NewTimer(c02Patience)
	defer p.Stop()
	select {
	case o := <-ch:
		if atomic.LoadInt32(&second.entries) == 0 && o.err != nil && (status.Code(o.err) == codes.Unknown || status.Code(o.err) == codes.Unavailable) {
			m.Count("breaker_reject_tolerated", 1)
			return false
		}
		if o.err != nil || o.resp == nil || !o.resp.GetOk() {
			m.Violate("C02:rpcserver:second-call-behind-parked:not-handler-result", desc, "first call's handler still parked; second call: resp=%v err=%v, want (Ok:true, nil)", o.resp, o.err)
			return false
		}
	case <-p.C:
		atomic.AddInt64(&c02Hangs, 1)
		if atomic.LoadInt32(&second.entries) == 0 {
			var dump strings.Builder
			for _, gr := range vk.GoroutinesIn("serverinterceptors.") {
				if dump.Len() < 6000 {
					dump.WriteString(gr + "\n\n")
				}
			}
			m.Violate("C02:rpcserver:second-call-blocked-behind-parked", desc, "a call whose handler is parked on the harness gate occupies the server's timeout interceptor; a second non-blocking call issued %v ago has not entered its handler. Goroutines:\n%s", c02Patience, dump.String())
		} else {
			m.Inconclusive("rpcserver behind-parked: second call entered but unanswered after %v", c02Patience)
		}
		first.release()
		return false
	}
	first.release()
	m.Count("second_call_served_behind_parked", 1)
	m.Case("rpcserver|behind-parked", true)
	return true
}

var c02Sampled sync.Map

var c02Hangs int64

// streamScenario: one bidirectional stream. A panic in the stream handler must
// reach the client as codes.Internal (StreamCrashInterceptor) and the server must
// keep serving.
func (lv *c02Live) streamScenario(m *vk.M, tag string, sc c02Script) bool {
	run := &c02Run{id: atomic.AddInt64(&c02NextID, 1), sc: sc, gate: make(chan struct{}), blocked: make(chan struct{}), done: make(chan struct{})}
	lv.svc.runs.Store(run.id, run)
	defer lv.svc.runs.Delete(run.id)
	desc := fmt.Sprintf("case=0;server=%s;run=%d;script=%s", tag, run.id, vk.JSON(sc))
	type out struct {
		first, final error
		got          bool
	}
	ch := make(chan out, 1)
	go func() {
		var o out
		ctx, cancel := context.WithTimeout(context.Background(), 2*c02Watchdog)
		defer cancel()
		st, err := lv.conn.NewStream(ctx, &grpc.StreamDesc{StreamName: "Echo", ServerStreams: true, ClientStreams: true}, "/c02.Stream/Echo")
		if err != nil {
			o.first, o.final = err, err
			ch <- o
			return
		}
		if err := st.SendMsg(&mock.DepositRequest{Amount: float32(run.id)}); err != nil {
			o.first = err
		}
		_ = st.CloseSend()
		var resp mock.DepositResponse
		if err := st.RecvMsg(&resp); err != nil {
			o.final = err
		} else {
			o.got = resp.GetOk()
			o.final = st.RecvMsg(&resp) // io.EOF on a clean end, the status error otherwise
		}
		ch <- o
	}()
	var o out
	select {
	case o = <-ch:
	case <-time.After(c02Watchdog):
		m.Inconclusive("rpcserver %s: stream did not finish within the watchdog", sc.Kind)
		return false
	}
	code := status.Code(o.final)
	if o.final != nil && o.final != io.EOF && (code == codes.Internal || code == codes.Unavailable) {
		atomic.AddInt64(&lv.fails, 1)
	}
	if atomic.LoadInt32(&run.entries) == 0 && o.final != nil && o.final != io.EOF && atomic.LoadInt64(&lv.fails) > 0 && (code == codes.Unknown || code == codes.Unavailable) {
		m.Count("breaker_reject_tolerated", 1)
		return false
	}
	violate := func(sig, format string, a ...any) bool {
		m.Violate("C02:rpcserver:"+sig, desc, "%s | client saw first-msg=%v end=%v (send err %v)", fmt.Sprintf(format, a...), o.got, o.final, o.first)
		return false
	}
	switch sc.Kind {
	case "stream-ok":
		if sc.Code == 0 {
			if !o.got || o.final != io.EOF {
				return violate("stream:not-handler-result", "stream handler sent one message and returned nil")
			}
		} else if o.got || code != codes.Code(sc.Code) {
			return violate("stream:not-handler-result", "stream handler returned status %v", codes.Code(sc.Code))
		}
		m.Count("stream_result_handler", 1)
	case "stream-panic", "stream-send-panic":
		if o.final == nil || o.final == io.EOF || code != codes.Internal {
			return violate(sc.Kind+":not-internal", "stream handler panicked, want the stream to end with Internal")
		}
		m.Count("stream_panic_internal", 1)
	}
	m.Case(fmt.Sprintf("rpcserver|%s|code=%d", sc.Kind, sc.Code), true)
	return true
}

const c02RPCServerRule = "real gRPC server (rpc/internal.NewServer+Start, loopback, scripted Deposit service, grpc client): fast ⇒ the handler's reply/status; gated late ⇒ DeadlineExceeded from the server; panic ⇒ Internal; late panic does not kill the process; the server keeps serving after each"

func TestVerifC02RPCServer(t *testing.T) {
	logx.Disable()
	m := vk.New(t, "C02", c02RPCServerRule)
	defer m.Done()
	r := m.Rand("rpcserver")
	short := time.Duration(20+r.Intn(40)) * time.Millisecond
	m.Current(fmt.Sprintf("case=0;short=%v", short))
	long, ok := c02StartRPC(m, "long", 60*time.Second)
	if !ok {
		return
	}
	defer long.stop()
	shortSrv, ok := c02StartRPC(m, "short", short)
	if !ok {
		return
	}
	defer shortSrv.stop()
	okCodes := []int{0, 0, 0, int(codes.InvalidArgument), int(codes.NotFound), int(codes.AlreadyExists), int(codes.FailedPrecondition), int(codes.PermissionDenied)}
	// Both servers share the process-wide breaker of "/mock.DepositService/Deposit":
	// rounds of many acceptable results around every failing one keep it closed.
	rounds := vk.N(10, 150)
	for i := 0; i < rounds && m.ViolCount() == 0; i++ {
		var wg sync.WaitGroup
		for w := 0; w < 4; w++ {
			wg.Add(1)
			rr := m.Rand("rpcserver", i, w)
			go func() {
				defer wg.Done()
				for k := 0; k < 6; k++ {
					srv, tag := long, "long"
					if rr.Intn(4) == 0 {
						srv, tag = shortSrv, "short"
					}
					srv.scenario(m, tag, c02Script{Kind: "fast", Code: okCodes[rr.Intn(len(okCodes))]})
				}
			}()
		}
		wg.Wait()
		switch i % 4 {
		case 0:
			shortSrv.scenario(m, "short", c02Script{Kind: "late", Code: []int{0, int(codes.NotFound)}[r.Intn(2)]})
		case 1:
			long.scenario(m, "long", c02Script{Kind: "panic"})
		case 2:
			shortSrv.scenario(m, "short", c02Script{Kind: "latepanic"})
		case 3:
			long.scenario(m, "long", c02Script{Kind: "fast", Code: int(codes.Unavailable)})
		}
		// streaming: mostly clean streams, a panic every other round (Internal counts for the stream's breaker)
		for k := 0; k < 4; k++ {
			long.streamScenario(m, "long", c02Script{Kind: "stream-ok", Code: okCodes[r.Intn(len(okCodes))]})
		}
		if i%2 == 0 {
			long.streamScenario(m, "long", c02Script{Kind: []string{"stream-panic", "stream-send-panic"}[(i/2)%2]})
			long.streamScenario(m, "long", c02Script{Kind: "stream-ok"})
		}
		if i%4 == 1 {
			long.behindParked(m, "long", short)
		}
		// the server still answers
		long.scenario(m, "long", c02Script{Kind: "fast"})
		shortSrv.scenario(m, "short", c02Script{Kind: "fast"})
	}
	for _, lv := range []*c02Live{long, shortSrv} {
		if atomic.LoadInt64(&lv.userUnary) == 0 || atomic.LoadInt64(&lv.userOpt) == 0 {
			m.Inconclusive("user-supplied unary interceptors were never invoked (AddUnaryInterceptors %d, grpc.UnaryInterceptor option %d)", lv.userUnary, lv.userOpt)
		}
	}
	m.Count("user_unary_interceptor_calls", atomic.LoadInt64(&long.userUnary)+atomic.LoadInt64(&shortSrv.userUnary))
	m.Count("user_option_interceptor_calls", atomic.LoadInt64(&long.userOpt)+atomic.LoadInt64(&shortSrv.userOpt))
	m.Count("user_stream_interceptor_calls", atomic.LoadInt64(&long.userStream))
	_ = errors.New
}
