//go:build verif

package internal

// C14 — integration point rpc/internal/client.go (anchored file): a client
// built through NewClient with any combination of the package's ClientOptions
// must balance over every resolved backend with the p2c balancer.
//
// Three real in-process gRPC servers (mock Deposit service, counting
// interceptor) listen on loopback; the client dials direct:///a,b,c. p2c's
// clock (lib/timex) is virtual: 10 ms pass between calls and 1/2/3 ms inside
// the backends, so 300 calls are > 3 virtual seconds of sustained traffic and
// the slowest backend must at least be force-picked. The verdict is a count,
// not a timing: the monitor first reads, through the
// channelz service, how many sub-channels the client channel owns and waits
// (watchdog => inconclusive) until all of them are READY; only then the counted
// calls are sent. If the client owns fewer sub-channels than there are
// backends, nothing is waited for: the set of sub-channels of a static resolver
// is final, and the counted calls show which backends are never used.

import (
	"context"
	"fmt"
	"net"
	"strings"
	"sync/atomic"
	"testing"
	"time"

	"github.com/gotid/god/lib/logx"
	"github.com/gotid/god/lib/timex"
	"github.com/gotid/god/rpc/internal/mock"
	"google.golang.org/grpc"
	czpb "google.golang.org/grpc/channelz/grpc_channelz_v1"
	czsvc "google.golang.org/grpc/channelz/service"
	"google.golang.org/grpc/credentials/insecure"

	"verif.local/vk"
)

type c14Backend struct {
	addr  string
	calls int64
	lat   time.Duration
	srv   *grpc.Server
}

func c14StartBackends(n int) ([]*c14Backend, error) {
	var bs []*c14Backend
	for i := 0; i < n; i++ {
		lis, err := net.Listen("tcp", "127.0.0.1:0")
		if err != nil {
			return bs, err
		}
		b := &c14Backend{addr: lis.Addr().String(), lat: time.Duration(i+1) * time.Millisecond}
		b.srv = grpc.NewServer(grpc.UnaryInterceptor(func(ctx context.Context, req interface{},
			_ *grpc.UnaryServerInfo, handler grpc.UnaryHandler) (interface{}, error) {
			atomic.AddInt64(&b.calls, 1)
			timex.VerifAdvance(b.lat) // the call takes b.lat of virtual time
			return handler(ctx, req)
		}))
		mock.RegisterDepositServiceServer(b.srv, &mock.DepositServer{})
		go func() { _ = b.srv.Serve(lis) }()
		bs = append(bs, b)
	}
	return bs, nil
}

const c14CallGap = 10 * time.Millisecond

const c14NoClient = "NewClient refused to build a client (not a timeout): "

type c14Opt struct {
	name string
	mk   func() ClientOption
}

var (
	c14UnaryIcpt  int64
	c14OptionList = []c14Opt{
		{"WithDialOption", func() ClientOption { return WithDialOption(grpc.WithUserAgent("verif-c14")) }},
		{"WithNonBlock", func() ClientOption { return WithNonBlock() }},
		{"WithTimeout", func() ClientOption { return WithTimeout(30 * time.Second) }},
		{"WithTransportCredentials", func() ClientOption { return WithTransportCredentials(insecure.NewCredentials()) }},
		{"WithUnaryClientInterceptor", func() ClientOption {
			return WithUnaryClientInterceptor(func(ctx context.Context, method string, req, reply interface{},
				cc *grpc.ClientConn, invoker grpc.UnaryInvoker, opts ...grpc.CallOption) error {
				atomic.AddInt64(&c14UnaryIcpt, 1)
				return invoker(ctx, method, req, reply, cc, opts...)
			})
		}},
		{"WithStreamClientInterceptor", func() ClientOption {
			return WithStreamClientInterceptor(func(ctx context.Context, desc *grpc.StreamDesc, cc *grpc.ClientConn,
				method string, streamer grpc.Streamer, opts ...grpc.CallOption) (grpc.ClientStream, error) {
				return streamer(ctx, desc, cc, method, opts...)
			})
		}},
	}
)

// c14Channelz answers "how many sub-channels does the channel dialled to target
// own, and how many of them are READY".
type c14Channelz struct {
	srv  *grpc.Server
	conn *grpc.ClientConn
	cli  czpb.ChannelzClient
}

func c14StartChannelz() (*c14Channelz, error) {
	lis, err := net.Listen("tcp", "127.0.0.1:0")
	if err != nil {
		return nil, err
	}
	z := &c14Channelz{srv: grpc.NewServer()}
	czsvc.RegisterChannelzServiceToServer(z.srv)
	go func() { _ = z.srv.Serve(lis) }()
	ctx, cancel := context.WithTimeout(context.Background(), 30*time.Second)
	defer cancel()
	z.conn, err = grpc.DialContext(ctx, lis.Addr().String(), grpc.WithTransportCredentials(insecure.NewCredentials()), grpc.WithBlock())
	if err != nil {
		z.srv.Stop()
		return nil, err
	}
	z.cli = czpb.NewChannelzClient(z.conn)
	return z, nil
}

func (z *c14Channelz) stop() {
	_ = z.conn.Close()
	z.srv.Stop()
}

// probe lists the sub-channels of the channel dialled to target. ok=false on any
// error (a listed sub-channel id can be gone by the time it is queried, the
// channel may not be listed yet): the caller simply polls again.
func (z *c14Channelz) probe(target string) (total, ready int, ok bool) {
	ctx, cancel := context.WithTimeout(context.Background(), 10*time.Second)
	defer cancel()
	var start int64
	for {
		resp, err := z.cli.GetTopChannels(ctx, &czpb.GetTopChannelsRequest{StartChannelId: start, MaxResults: 1000})
		if err != nil {
			return 0, 0, false
		}
		for _, ch := range resp.GetChannel() {
			start = ch.GetRef().GetChannelId() + 1
			if ch.GetData().GetTarget() != target {
				continue
			}
			for _, ref := range ch.GetSubchannelRef() {
				sr, err := z.cli.GetSubchannel(ctx, &czpb.GetSubchannelRequest{SubchannelId: ref.GetSubchannelId()})
				if err != nil {
					return 0, 0, false // churn: re-list
				}
				total++
				if sr.GetSubchannel().GetData().GetState().GetState() == czpb.ChannelConnectivityState_READY {
					ready++
				}
			}
			return total, ready, true
		}
		if resp.GetEnd() || len(resp.GetChannel()) == 0 {
			return 0, 0, false
		}
	}
}

// readiness polls channelz until the sub-channel set is settled: either every
// backend has a READY sub-channel, or two consecutive complete listings (50 ms
// apart, after the first served call) agree that the client owns fewer
// sub-channels than backends. ok=false: watchdog (30 s) expired.
func (z *c14Channelz) readiness(target string, nb int) (total int, ok bool) {
	lastFew, polls := -1, 0
	ok = vk.WaitUntil(30*time.Second, func() bool {
		t, r, good := z.probe(target)
		polls++
		if !good {
			lastFew = -1
			return false
		}
		total = t
		if t >= nb {
			lastFew = -1
			return r >= nb
		}
		if t >= 1 && r == t && lastFew == t {
			return true
		}
		lastFew = t
		time.Sleep(50 * time.Millisecond)
		return false
	})
	return total, ok
}

type c14Outcome struct {
	total, calls int
	served       []int64
	sum          int64
}

// c14Attempt runs one option set against fresh servers. retry != "" means the
// environment (not the property) got in the way: the caller tries again.
func c14Attempt(nb, minCalls int, opts []ClientOption) (out c14Outcome, retry string) {
	backends, err := c14StartBackends(nb)
	defer func() {
		for _, b := range backends {
			b.srv.Stop()
		}
	}()
	if err != nil {
		return out, fmt.Sprintf("cannot listen on loopback: %v", err)
	}
	z, err := c14StartChannelz()
	if err != nil {
		return out, fmt.Sprintf("cannot start the channelz service: %v", err)
	}
	defer z.stop()
	var addrs []string
	for _, b := range backends {
		addrs = append(addrs, b.addr)
	}
	target := "direct:///" + strings.Join(addrs, ",") // unique per attempt (fresh ports)
	cli, err := NewClient(target, opts...)
	if err != nil {
		if !strings.Contains(err.Error(), "deadline exceeded") {
			// not a timeout: this option set cannot produce a client at all (e.g. no
			// transport security configured); no pick ever happens, nothing for C14 to judge
			return out, c14NoClient + err.Error()
		}
		return out, fmt.Sprintf("NewClient failed: %v", err)
	}
	defer cli.Conn().Close()
	dc := mock.NewDepositServiceClient(cli.Conn())
	call := func() error {
		timex.VerifAdvance(c14CallGap)
		ctx, cancel := context.WithTimeout(context.Background(), 30*time.Second)
		defer cancel()
		_, err := dc.Deposit(ctx, &mock.DepositRequest{Amount: 0})
		return err
	}
	if err := call(); err != nil { // the channel is usable (also for WithNonBlock)
		return out, fmt.Sprintf("first call failed: %v", err)
	}
	total, ok := z.readiness(target, nb)
	if !ok {
		return out, fmt.Sprintf("sub-channel readiness not established within 30 s (last listing: %d sub-channels)", total)
	}
	before := make([]int64, nb)
	for i, b := range backends {
		before[i] = atomic.LoadInt64(&b.calls)
	}
	served := func() (d []int64, sum int64, all bool) {
		all = true
		d = make([]int64, nb)
		for i, b := range backends {
			d[i] = atomic.LoadInt64(&b.calls) - before[i]
			sum += d[i]
			if d[i] == 0 {
				all = false
			}
		}
		return
	}
	calls := 0
	for calls < 10*minCalls {
		if err := call(); err != nil {
			return out, fmt.Sprintf("call %d failed: %v", calls, err)
		}
		calls++
		if calls >= minCalls {
			if _, _, all := served(); all || total < nb {
				break
			}
		}
	}
	d, sum, _ := served()
	return c14Outcome{total: total, calls: calls, served: d, sum: sum}, ""
}

func TestVerifC14ClientOptions(t *testing.T) {
	logx.Disable()
	m := vk.New(t, "C14", "clients built through rpc/internal.NewClient(direct:///a,b,c) with no option, every ClientOption alone and every ordered pair of them, each against 3 fresh loopback gRPC servers (mock Deposit service): once channelz reports every sub-channel of the client READY (or, twice in a row, that the client owns fewer sub-channels than backends), >= 300 sequential calls 10 ms apart on p2c's (virtual) clock, backends taking 1/2/3 virtual ms: every call is served by exactly one backend and every backend serves at least one call (p2c picks each backend at least through its once-per-second force-pick; pick_first uses exactly one). Environment trouble (dial/call/channelz errors, readiness watchdog) => the case is retried on fresh servers, inconclusive only after 3 failed attempts")
	defer m.Done()
	const nb = 3
	// p2c measures latency, decay and the once-per-second force-pick on the timex
	// clock: drive it virtually (10 ms between calls, 1/2/3 ms inside the three
	// backends), so that "sustained traffic for N virtual seconds" is a call count.
	timex.VerifFakeClock(400 * 24 * time.Hour)
	defer timex.VerifRealClock()

	type combo struct {
		name string
		opts []c14Opt
	}
	combos := []combo{{name: "none"}}
	for _, o := range c14OptionList {
		combos = append(combos, combo{name: o.name, opts: []c14Opt{o}})
	}
	for _, a := range c14OptionList {
		for _, b := range c14OptionList {
			if a.name != b.name {
				combos = append(combos, combo{name: a.name + "+" + b.name, opts: []c14Opt{a, b}})
			}
		}
	}
	minCalls := vk.N(300, 3000)
	reps := vk.N(1, 4)
	idx := 0
	for rep := 0; rep < reps; rep++ {
		for _, cb := range combos {
			idx++
			if !m.Only(idx) {
				continue
			}
			desc := fmt.Sprintf("case=%d;{\"options\":%q,\"backends\":%d,\"calls\":%d}", idx, cb.name, nb, minCalls)
			m.Current(desc)
			var out c14Outcome
			var reasons []string
			done := false
			for attempt := 1; attempt <= 3 && !done; attempt++ {
				var opts []ClientOption
				for _, o := range cb.opts {
					opts = append(opts, o.mk())
				}
				var retry string
				out, retry = c14Attempt(nb, minCalls, opts)
				if retry == "" {
					done = true
				} else {
					reasons = append(reasons, fmt.Sprintf("attempt %d: %s", attempt, retry))
					m.Count("client_attempts_retried", 1)
				}
			}
			if !done {
				noClient := true
				for _, r := range reasons {
					if !strings.Contains(r, c14NoClient) {
						noClient = false
					}
				}
				if noClient {
					m.Skip(fmt.Sprintf("case %d (%s): %s (3 attempts; dialling is outside C14, the case observes no pick)", idx, cb.name, reasons[0]))
					m.Count("client_cases_skipped_no_client", 1)
					continue
				}
				m.Inconclusive("case %d (%s): all 3 attempts failed for environmental reasons: %s", idx, cb.name, strings.Join(reasons, " | "))
				continue
			}
			if len(reasons) > 0 {
				m.Note("case %d (%s) needed a retry: %s", idx, cb.name, strings.Join(reasons, " | "))
			}
			all := true
			for _, c := range out.served {
				if c == 0 {
					all = false
				}
			}
			m.Count(fmt.Sprintf("client_channels_with_%d_subchannels", out.total), 1)
			m.Count("client_calls", int64(out.calls))
			m.Count("client_scenarios", 1)
			if m.WantSample() && (len(cb.opts) != 1 || cb.name == "WithTransportCredentials") {
				m.Sample(map[string]any{"options": cb.name, "subchannels": out.total, "calls": out.calls, "served_per_backend": out.served})
			}
			if out.sum != int64(out.calls) {
				m.Violate("C14:client:option-"+cb.name+":call-not-served-by-one-backend", desc, "%d successful calls but the backends served %d (%v)", out.calls, out.sum, out.served)
			} else if !all {
				m.Violate("C14:client:option-"+cb.name+":backend-never-picked", desc, "options [%s]: %d sequential calls after the client's %d sub-channel(s) were READY, served per backend %v: a resolved backend is never used (client owns %d sub-channels for %d backends)",
					cb.name, out.calls, out.total, out.served, out.total, nb)
			}
			m.Case(vk.Digest(cb.name, out.total), true)
		}
	}
	m.Count("client_unary_interceptor_calls", atomic.LoadInt64(&c14UnaryIcpt))
}
