//go:build verif

package clientinterceptors

// C01 — gRPC client breaker interceptor: benign / failing codes as they act on
// the named breaker the interceptor uses (black box: rejected = invoker not run).

import (
	"context"
	"errors"
	"fmt"
	"io"
	"strings"
	"sync"
	"testing"
	"time"

	"github.com/gotid/god/lib/breaker"
	"github.com/gotid/god/lib/logx"
	"github.com/gotid/god/lib/stat"
	"github.com/gotid/god/lib/timex"
	"google.golang.org/grpc"
	gcodes "google.golang.org/grpc/codes"
	"google.golang.org/grpc/status"
	"verif.local/vk"
)

var c01Failing = map[gcodes.Code]bool{
	gcodes.DeadlineExceeded: true, gcodes.Internal: true, gcodes.Unavailable: true,
	gcodes.DataLoss: true, gcodes.Unimplemented: true,
}

func c01CodeErr(c gcodes.Code) error {
	if c == gcodes.OK {
		return nil
	}
	return status.Error(c, "c01")
}

// c01NonStatus: errors that carry no gRPC status. Under gRPC's own definition
// (status.Code) such an error has code Unknown (a wrapped benign status has either
// its own code or Unknown), which is not in the statement's failing set; raw
// context.Canceled is named benign explicitly. Raw context.DeadlineExceeded and
// wrapped failing statuses are left unasserted (the statement leaves them open).
type c01PlainErr struct{ msg string }

func (e c01PlainErr) Error() string { return e.msg }

var c01NonStatus = []struct {
	name string
	err  error
}{
	{"errors.New", errors.New("c01 plain error")},
	{"custom-error-type", c01PlainErr{"c01 custom error type"}},
	{"raw-context.Canceled", context.Canceled},
	{"io.EOF", io.EOF},
	{"wrapped-NotFound-status", fmt.Errorf("c01 wrap: %w", status.Error(gcodes.NotFound, "c01"))},
}

// c01RegistryProbe: the named registry's entry point must return. On a healthy
// tree the probe takes microseconds; a fired watchdog with goroutines parked in
// breaker.Get on the registry lock is the witness of C01:registry:hang.
func c01RegistryProbe(m *vk.M) bool {
	const wd = 45 * time.Second
	ok := vk.Within(wd, func() {
		for i := 0; i < 3; i++ {
			n := fmt.Sprintf("c01-probe-%d-%d", vk.Seq(), i)
			if breaker.Get(n) != breaker.Get(n) {
				m.Violate("C01:registry:identity", "case=0;registry probe", "Get(%q) returned two different breakers", n)
			}
		}
	})
	if ok {
		return true
	}
	var parked []string
	for _, b := range vk.GoroutinesIn("lib/breaker.Get(") {
		if strings.Contains(b, "sync.(*RWMutex)") || strings.Contains(b, "semacquire") {
			parked = append(parked, b)
		}
	}
	if len(parked) > 0 {
		m.Violate("C01:registry:hang", "case=0;registry probe: Get(name) twice for three fresh names", "breaker.Get did not return within %v; %d goroutine(s) parked on the registry lock:\n%s", wd, len(parked), strings.Join(parked, "\n\n"))
	} else {
		m.Inconclusive("registry probe did not finish within %v and no goroutine is parked in breaker.Get", wd)
	}
	return false
}

// c01Ctx is a caller context whose state the harness flips deterministically
// (no timers): before the call or while the invoker/handler runs.
type c01Ctx struct {
	context.Context
	mu   sync.Mutex
	err  error
	done chan struct{}
}

func c01NewCtx() *c01Ctx { return &c01Ctx{Context: context.Background(), done: make(chan struct{})} }

func (c *c01Ctx) end(err error) {
	c.mu.Lock()
	if c.err == nil {
		c.err = err
		close(c.done)
	}
	c.mu.Unlock()
}
func (c *c01Ctx) Err() error {
	c.mu.Lock()
	defer c.mu.Unlock()
	return c.err
}
func (c *c01Ctx) Done() <-chan struct{} { return c.done }
func (c *c01Ctx) Deadline() (time.Time, bool) {
	return time.Time{}, false
}

// caller-context kinds: how the caller's context ends and when
var c01CtxKinds = []struct {
	name   string
	err    error
	during bool
}{
	{"ctx-cancelled-before-call", context.Canceled, false},
	{"ctx-deadline-expired-before-call", context.DeadlineExceeded, false},
	{"ctx-cancelled-during-call", context.Canceled, true},
	{"ctx-deadline-expires-during-call", context.DeadlineExceeded, true},
}

func TestVerifC01ClientInterceptorTable(t *testing.T) {
	m := vk.New(t, "C01", "clientinterceptors.BreakerInterceptor with an invoker answering one gRPC code, one method (= one named breaker) per row, virtual clock frozen: benign code x150 and each error without a gRPC status (plain, custom type, raw context.Canceled, io.EOF, wrapped benign status) x150 => invoker always runs; failing code x400 => at least one call short-circuited with ErrServiceUnavailable; 10000 mixed benign codes on one method => 0 rejections; the whole code table again with caller contexts cancelled / past their deadline before or during the call (classification by the call's gRPC status only); non-trivial = row completed (benign) / rejected (failing)")
	defer m.Done()
	logx.Disable()
	stat.SetReporter(nil)
	timex.VerifFakeClock(1000*time.Hour + time.Duration(m.Rand("clock").Int63n(int64(time.Hour))))
	defer timex.VerifRealClock()
	if !c01RegistryProbe(m) {
		return
	}
	r := m.Rand("client")
	cc := new(grpc.ClientConn)
	perBenign := vk.N(150, 2000)
	perBad := vk.N(400, 4000)
	callErr := func(method string, answer error) (ran bool, err error) {
		err = BreakerInterceptor(context.Background(), method, nil, nil, cc,
			func(ctx context.Context, method string, req, reply interface{}, cc *grpc.ClientConn, opts ...grpc.CallOption) error {
				ran = true
				return answer
			})
		return
	}
	call := func(method string, c gcodes.Code) (bool, error) { return callErr(method, c01CodeErr(c)) }
	tag := fmt.Sprintf("%d.%d", vk.Seed(), vk.Seq())
	var benign []gcodes.Code
	for c := gcodes.Code(0); c <= gcodes.Unauthenticated; c++ {
		name := c.String()
		method := fmt.Sprintf("/c01.%s/%s", tag, name)
		desc := fmt.Sprintf("case=%d;invoker always answers %s", int(c), name)
		if !c01Failing[c] {
			benign = append(benign, c)
			okRow := true
			for i := 0; i < perBenign; i++ {
				ran, err := call(method, c)
				m.Count("calls_benign", 1)
				if !ran {
					m.Violate("C01:benign:grpc-client:"+name+":rejected", desc, "call #%d short-circuited (%v) after only %s outcomes", i, err, name)
					okRow = false
					break
				}
			}
			m.Case("benign-"+name, okRow)
			continue
		}
		rej, first := 0, -1
		bad := false
		for i := 0; i < perBad; i++ {
			ran, err := call(method, c)
			m.Count("calls_failing", 1)
			if ran && err == breaker.ErrServiceUnavailable {
				m.Violate("C01:reject:req-ran", desc, "call #%d ran the invoker and still returned ErrServiceUnavailable", i)
				bad = true
				break
			}
			if !ran {
				rej++
				if first < 0 {
					first = i
				}
				if err != breaker.ErrServiceUnavailable {
					m.Violate("C01:reject:grpc-client:wrong-error", desc, "short-circuited call #%d returned %v", i, err)
					bad = true
					break
				}
			}
		}
		m.Count("calls_rejected", int64(rej))
		if !bad && rej == 0 {
			m.Violate("C01:nonbenign:grpc-client:"+name+":never-cut-off", desc, "%d consecutive %s answers and the invoker ran every time", perBad, name)
		}
		m.Case("failing-"+name, rej > 0)
		m.Sample(map[string]any{"scenario": fmt.Sprintf("%s x%d through BreakerInterceptor", name, perBad), "short_circuited": rej, "first_at_call": first})
	}
	var benignErrs []error
	for i, row := range c01NonStatus {
		if c01Failing[status.Code(row.err)] {
			m.Skip("non-status row " + row.name + ": status.Code maps it to a failing code")
			continue
		}
		benignErrs = append(benignErrs, row.err)
		method := fmt.Sprintf("/c01.%s/nonstatus%d", tag, i)
		desc := fmt.Sprintf("case=%d;invoker always answers the non-status error %s", 50+i, row.name)
		okRow := true
		for k := 0; k < perBenign; k++ {
			ran, err := callErr(method, row.err)
			m.Count("calls_benign_non_status", 1)
			if !ran {
				m.Violate("C01:benign:grpc-client:non-status:"+row.name+":rejected", desc, "call #%d short-circuited (%v) after only %s outcomes (gRPC code %s)", k, err, row.name, status.Code(row.err))
				okRow = false
				break
			}
		}
		m.Case("benign-nonstatus-"+row.name, okRow)
	}
	// ---- caller contexts that are cancelled / past their deadline (before or during the call): the
	// outcome class is the gRPC status of the call, whatever ctx.Err() says - a DeadlineExceeded caused
	// by the caller's own per-call deadline is still the statement's DeadlineExceeded
	for ki, ck := range c01CtxKinds {
		for c := gcodes.Code(0); c <= gcodes.Unauthenticated; c++ {
			name := c.String()
			method := fmt.Sprintf("/c01.%s/%s/%s", tag, ck.name, name)
			desc := fmt.Sprintf("case=%d;%s, invoker always answers %s", 300+ki*20+int(c), ck.name, name)
			one := func() (ran bool, err error) {
				ctx := c01NewCtx()
				if !ck.during {
					ctx.end(ck.err)
				}
				err = BreakerInterceptor(ctx, method, nil, nil, cc,
					func(ictx context.Context, method string, req, reply interface{}, cc *grpc.ClientConn, opts ...grpc.CallOption) error {
						ran = true
						if ck.during {
							ctx.end(ck.err)
						}
						return c01CodeErr(c)
					})
				return
			}
			if !c01Failing[c] {
				okRow := true
				for i := 0; i < perBenign; i++ {
					ran, err := one()
					m.Count("calls_benign_caller_ctx_ended", 1)
					if !ran {
						m.Violate("C01:benign:grpc-client:"+ck.name+":"+name+":rejected", desc, "call #%d short-circuited (%v) after only %s outcomes", i, err, name)
						okRow = false
						break
					}
				}
				m.Case(ck.name+"-benign-"+name, okRow)
				continue
			}
			rej := 0
			bad := false
			for i := 0; i < perBad; i++ {
				ran, err := one()
				m.Count("calls_failing_caller_ctx_ended", 1)
				if !ran {
					rej++
					if err != breaker.ErrServiceUnavailable {
						m.Violate("C01:reject:grpc-client:wrong-error", desc, "short-circuited call #%d returned %v", i, err)
						bad = true
						break
					}
				}
			}
			m.Count("calls_rejected_caller_ctx_ended", int64(rej))
			if !bad && rej == 0 {
				m.Violate("C01:nonbenign:grpc-client:"+ck.name+":"+name+":never-cut-off", desc, "%d consecutive %s answers on calls whose caller context was %s and the invoker ran every time: the caller's context state hides the failure", perBad, name, ck.name)
			}
			m.Case(ck.name+"-failing-"+name, rej > 0)
			if c == gcodes.DeadlineExceeded {
				m.Sample(map[string]any{"scenario": fmt.Sprintf("%s, DeadlineExceeded x%d", ck.name, perBad), "short_circuited": rej})
			}
		}
	}
	method := fmt.Sprintf("/c01.%s/mixed", tag)
	n := vk.N(10000, 200000)
	for i := 0; i < n; i++ {
		c := benign[r.Intn(len(benign))]
		answer := c01CodeErr(c)
		if len(benignErrs) > 0 && r.Intn(4) == 0 {
			answer = benignErrs[r.Intn(len(benignErrs))]
		}
		ran, err := callErr(method, answer)
		m.Count("calls_benign_mixed", 1)
		if !ran {
			m.Violate("C01:benign:grpc-client:mixed:rejected", "case=100;mixed benign codes on one method", "call #%d (%s) short-circuited (%v)", i, c, err)
			break
		}
	}
	m.Case("mixed-benign", true)

	// ---- sustained mix of benign and failing codes below the trip threshold: nothing may be
	// rejected while the outcomes seen satisfy total-5 <= 1.5*accepts (frozen clock)
	for _, share := range []int{10, 30} {
		mixMethod := fmt.Sprintf("/c01.%s/mix%d", tag, share)
		n := vk.N(3000, 30000)
		var acc, tot int64
		okRow := true
		failingCodes := []gcodes.Code{gcodes.DeadlineExceeded, gcodes.Internal, gcodes.Unavailable, gcodes.DataLoss, gcodes.Unimplemented}
		for k := 0; k < n; k++ {
			bad := r.Intn(100) < share
			c := benign[r.Intn(len(benign))]
			if bad {
				c = failingCodes[r.Intn(len(failingCodes))]
			}
			must := 2*(tot-5) <= 3*acc
			ran, err := call(mixMethod, c)
			m.Count("calls_mixed_success_failure", 1)
			if !ran {
				if must {
					m.Violate("C01:mixed:grpc-client:rejected-below-threshold", fmt.Sprintf("case=%d;%d%% failing codes among benign ones", 200+share, share), "call #%d (%s) was rejected (%v) although the %d admitted calls so far were %d benign and %d failing, i.e. total-5 <= 1.5*successes", k, c, err, tot, acc, tot-acc)
					okRow = false
					break
				}
				continue
			}
			tot++
			if !bad {
				acc++
			}
		}
		m.Case(fmt.Sprint("mixed-success-failure", share, okRow), okRow && tot > acc)
	}
}
