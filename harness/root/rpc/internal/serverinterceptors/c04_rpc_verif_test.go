//go:build verif

package serverinterceptors

// C04 — authentication gates, RPC part (DESIGN.md §3 C04).
//
// The table {metadata shape} x {token vs stored token} x {app known} x {store up /
// store answers errors / store connection dies} x {strict, non-strict} is finite and
// is enumerated completely, through four entry points: Authenticator.Authenticate,
// UnaryAuthorizeInterceptor, StreamAuthorizeInterceptor (called directly) and a real
// grpc.Server on bufconn (health service: Check = unary, Watch = stream) carrying the
// metadata over the wire. A fresh Authenticator (and Redis handle) is used per
// scenario because of the by-design 5-minute app->token cache; ordered pairs and
// triples of calls on one Authenticator check that the verdict of a call does not
// depend on the calls before it while the store content is unchanged.
// The expected verdict comes from c04Expect, a 15-line transcription of the
// property statement. Everything is sequential.

import (
	"context"
	"fmt"
	"net"
	"sync"
	"testing"
	"time"

	"github.com/alicebob/miniredis/v2"
	"github.com/gotid/god/lib/logx"
	"github.com/gotid/god/lib/store/redis"
	"github.com/gotid/god/rpc/internal/auth"
	"google.golang.org/grpc"
	"google.golang.org/grpc/codes"
	"google.golang.org/grpc/credentials/insecure"
	"google.golang.org/grpc/health"
	healthpb "google.golang.org/grpc/health/grpc_health_v1"
	"google.golang.org/grpc/metadata"
	"google.golang.org/grpc/status"
	"google.golang.org/grpc/test/bufconn"
	"verif.local/vk"
)

const c04AppsKey = "c04:apps"

var c04Stored = map[string]string{
	"app-a":     "token-a-0123456789",
	"app-b":     "token-b-abcdefghij",
	"app-blank": "", // an app registered with an empty token: no non-empty token can match
}

// c04Call is one metadata shape.
type c04Call struct {
	Name  string
	NoMD  bool // no incoming metadata at all
	App   *string
	Token *string
}

func c04S(s string) *string { return &s }

func c04Calls() []c04Call {
	return []c04Call{
		{Name: "no-metadata", NoMD: true},
		{Name: "empty-metadata"},
		{Name: "token-without-app", Token: c04S("token-a-0123456789")},
		{Name: "app-without-token", App: c04S("app-a")},
		{Name: "empty-app", App: c04S(""), Token: c04S("token-a-0123456789")},
		{Name: "empty-token", App: c04S("app-a"), Token: c04S("")},
		{Name: "both-empty", App: c04S(""), Token: c04S("")},
		{Name: "matching", App: c04S("app-a"), Token: c04S("token-a-0123456789")},
		{Name: "matching-b", App: c04S("app-b"), Token: c04S("token-b-abcdefghij")},
		{Name: "differing-other-apps-token", App: c04S("app-a"), Token: c04S("token-b-abcdefghij")},
		{Name: "differing-prefix", App: c04S("app-a"), Token: c04S("token-a-012345678")},
		{Name: "differing-suffix", App: c04S("app-a"), Token: c04S("token-a-0123456789x")},
		{Name: "differing-case", App: c04S("app-b"), Token: c04S("TOKEN-B-ABCDEFGHIJ")},
		{Name: "blank-stored-token", App: c04S("app-blank"), Token: c04S("anything")},
		{Name: "unknown-app", App: c04S("app-zz"), Token: c04S("token-a-0123456789")},
		{Name: "unknown-app-case", App: c04S("APP-A"), Token: c04S("token-a-0123456789")},
	}
}

// c04Expect transcribes the statement: true = admitted.
func c04Expect(c c04Call, storeUp, strict bool) (admit bool, why string) {
	if c.NoMD || c.App == nil || c.Token == nil || *c.App == "" || *c.Token == "" {
		return false, "lacks app/token metadata"
	}
	if !storeUp {
		return !strict, "store failure: rejected only in strict mode"
	}
	stored, known := c04Stored[*c.App]
	if !known {
		return !strict, "app has no stored token: rejected only in strict mode"
	}
	if stored == *c.Token {
		return true, "token matches the stored one"
	}
	return false, "token differs from the stored one"
}

func (c c04Call) md() metadata.MD {
	md := metadata.MD{}
	if c.App != nil {
		md.Set("app", *c.App)
	}
	if c.Token != nil {
		md.Set("token", *c.Token)
	}
	return md
}

func (c c04Call) incoming() context.Context {
	if c.NoMD {
		return context.Background()
	}
	return metadata.NewIncomingContext(context.Background(), c.md())
}

type c04Stream struct {
	grpc.ServerStream
	ctx context.Context
}

func (s c04Stream) Context() context.Context { return s.ctx }

// ---- stores ---------------------------------------------------------------

type c04Stores struct {
	up, erring *miniredis.Miniredis
	dead       net.Listener
	deadConns  int64
	mu         sync.Mutex
}

func c04NewStores() (*c04Stores, error) {
	s := &c04Stores{}
	var err error
	if s.up, err = miniredis.Run(); err != nil {
		return nil, err
	}
	if s.erring, err = miniredis.Run(); err != nil {
		return nil, err
	}
	for _, mr := range []*miniredis.Miniredis{s.up, s.erring} {
		for app, tok := range c04Stored {
			mr.HSet(c04AppsKey, app, tok)
		}
	}
	s.erring.SetError("ERR c04 injected store failure") // not LOADING/READONLY: the client would retry those with back-off
	// a store whose connections die: the port stays ours, every connection is closed at once
	if s.dead, err = net.Listen("tcp", "127.0.0.1:0"); err != nil {
		return nil, err
	}
	go func() {
		for {
			c, err := s.dead.Accept()
			if err != nil {
				return
			}
			s.mu.Lock()
			s.deadConns++
			s.mu.Unlock()
			c.Close()
		}
	}()
	return s, nil
}

func (s *c04Stores) close() {
	s.up.Close()
	s.erring.Close()
	s.dead.Close()
}

func (s *c04Stores) addr(state string) string {
	switch state {
	case "up":
		return s.up.Addr()
	case "error-reply":
		return s.erring.Addr()
	default:
		return s.dead.Addr().String()
	}
}

var c04StoreStates = []string{"up", "error-reply", "connection-dies"}

// ---- entry points -----------------------------------------------------------

type c04Outcome struct {
	ran  int
	err  error
	code codes.Code
	dur  time.Duration
}

type c04Entry struct {
	name string
	call func(a *auth.Authenticator, c c04Call) c04Outcome
}

func c04DirectEntries() []c04Entry {
	return []c04Entry{
		{"authenticate", func(a *auth.Authenticator, c c04Call) c04Outcome {
			err := a.Authenticate(c.incoming())
			ran := 0
			if err == nil {
				ran = 1 // Authenticate has no handler: nil error is the admission
			}
			return c04Outcome{ran: ran, err: err, code: status.Code(err)}
		}},
		{"unary", func(a *auth.Authenticator, c c04Call) c04Outcome {
			ran := 0
			resp, err := UnaryAuthorizeInterceptor(a)(c.incoming(), "req", &grpc.UnaryServerInfo{FullMethod: "/c04/Unary"},
				func(ctx context.Context, req interface{}) (interface{}, error) {
					ran++
					return "resp", nil
				})
			if err == nil && resp != "resp" {
				err = fmt.Errorf("c04: interceptor dropped the handler's response: %v", resp)
			}
			return c04Outcome{ran: ran, err: err, code: status.Code(err)}
		}},
		{"stream", func(a *auth.Authenticator, c c04Call) c04Outcome {
			ran := 0
			err := StreamAuthorizeInterceptor(a)("srv", c04Stream{ctx: c.incoming()}, &grpc.StreamServerInfo{FullMethod: "/c04/Stream"},
				func(srv interface{}, stream grpc.ServerStream) error {
					ran++
					return nil
				})
			return c04Outcome{ran: ran, err: err, code: status.Code(err)}
		}},
	}
}

func c04NewAuth(stores *c04Stores, state string, strict bool) (*auth.Authenticator, error) {
	return auth.NewAuthenticator(redis.New(stores.addr(state)), c04AppsKey, strict)
}

func c04Mode(strict bool) string {
	if strict {
		return "strict"
	}
	return "nonstrict"
}

// c04Judge compares one outcome with the statement. Returns false on violation.
func c04Judge(m *vk.M, desc string, entry, state string, strict bool, c c04Call, out c04Outcome) bool {
	admit, why := c04Expect(c, state == "up", strict)
	sig := fmt.Sprintf("C04:rpc:%s:%s:store-%s:", entry, c04Mode(strict), state)
	m.Count("rpc.calls."+entry, 1)
	m.Count("rpc.code."+out.code.String(), 1)
	if state == "up" && out.dur > 5*time.Second && admit != (out.ran == 1 && out.err == nil) {
		// the redis client gives up after 4 attempts of 3 s: a stalled machine can turn the
		// reachable store into a store failure, which legitimately changes the verdict
		m.Inconclusive("call against the reachable store took %s and deviates (ran=%d err=%v): %s", out.dur, out.ran, out.err, desc)
		return false
	}
	switch {
	case out.ran > 1:
		m.Violate(sig+"handler-ran-twice:"+c.Name, desc, "handler ran %d times", out.ran)
		return false
	case admit && (out.ran != 1 || out.err != nil):
		m.Violate(sig+"rejected-but-must-admit:"+c.Name, desc, "expected admission (%s); handler ran %d times, error %v", why, out.ran, out.err)
		return false
	case !admit && out.ran != 0:
		m.Violate(sig+"admitted-but-must-reject:"+c.Name, desc, "expected rejection (%s); handler ran, error %v", why, out.err)
		return false
	case !admit && (out.err == nil || out.code == codes.OK):
		m.Violate(sig+"rejected-without-error-status:"+c.Name, desc, "expected rejection (%s); handler did not run but the status is %v (%v)", why, out.code, out.err)
		return false
	}
	if admit {
		m.Count("rpc.admitted", 1)
	} else {
		m.Count("rpc.rejected", 1)
	}
	return true
}

const c04RpcRule = "complete table: 16 metadata shapes x store {up, error replies, connection dies} x {strict, non-strict} x entry point; a call is admitted (handler runs once, nil error) iff app and token are present and non-empty and (store up and stored token == token, or (store failure or no stored token) and non-strict); otherwise the handler does not run and a non-OK status is returned; also ordered pairs of calls on a fresh Authenticator and long seeded call histories on one Authenticator (store content constant)"

// TestVerifC04RpcTable: the interceptors and Authenticate called directly.
func TestVerifC04RpcTable(t *testing.T) {
	logx.Disable()
	m := vk.New(t, "C04", c04RpcRule)
	defer m.Done()
	stores, err := c04NewStores()
	if err != nil {
		m.Inconclusive("cannot start miniredis: %v", err)
		return
	}
	defer stores.close()
	calls := c04Calls()
	idx := 0
	scenario := func(entry c04Entry, state string, strict bool, seq []c04Call) {
		idx++
		if !m.Only(idx) || m.ViolCount() > 80 {
			return
		}
		names := ""
		for _, c := range seq {
			names += c.Name + ","
		}
		if len(names) > 600 {
			names = names[:600] + "...(seeded history)"
		}
		desc := fmt.Sprintf("case=%d;entry=%s;store=%s;strict=%v;calls=%s", idx, entry.name, state, strict, names)
		m.Current(desc)
		a, err := c04NewAuth(stores, state, strict)
		if err != nil {
			m.Inconclusive("NewAuthenticator: %v", err)
			return
		}
		ok := true
		var outs []string
		t0 := time.Now()
		defer func() { m.Count("rpc.wall_ms.store-"+state, time.Since(t0).Milliseconds()) }()
		for i, c := range seq {
			var out c04Outcome
			tc := time.Now()
			if !vk.Within(60*time.Second, func() { out = entry.call(a, c) }) {
				m.Inconclusive("call did not return within 60 s: %s", desc)
				return
			}
			out.dur = time.Since(tc)
			outs = append(outs, fmt.Sprintf("%s->ran=%d,code=%s", c.Name, out.ran, out.code))
			if !c04Judge(m, fmt.Sprintf("%s;step=%d", desc, i), entry.name, state, strict, c, out) {
				ok = false
				break
			}
		}
		m.Case(vk.Digest(entry.name, state, strict, names), true)
		if len(seq) <= 2 {
			m.Count(fmt.Sprintf("rpc.scenarios.len%d", len(seq)), 1)
		} else {
			m.Count("rpc.scenarios.long_history", 1)
			m.Count("rpc.long_history_calls", int64(len(outs)))
		}
		if ok && m.WantSample() && idx%131 == 7 {
			m.Sample(map[string]any{"entry": entry.name, "store": state, "strict": strict, "observed": outs})
		}
	}
	for _, entry := range c04DirectEntries() {
		for _, state := range c04StoreStates {
			for _, strict := range []bool{true, false} {
				// single calls on a fresh Authenticator: the complete table
				for _, c := range calls {
					scenario(entry, state, strict, []c04Call{c})
				}
				// every ordered pair on a fresh Authenticator (cache miss -> cache hit,
				// history independence). Only a reachable store can fill the cache, so the
				// quick tier enumerates all pairs for "up" on every entry point, all pairs
				// for error replies on Authenticate, and the diagonal (same call twice) for the
				// dying store on the unary entry (each access there costs the redis client's
				// retries, ~100 ms); the thorough tier enumerates everything.
				for i, c1 := range calls {
					for j, c2 := range calls {
						if !vk.Thorough() {
							if state == "error-reply" && entry.name != "authenticate" {
								continue
							}
							if state == "connection-dies" && (entry.name != "unary" || i != j) {
								continue
							}
						}
						scenario(entry, state, strict, []c04Call{c1, c2})
					}
				}
			}
		}
	}
	// long seeded histories on ONE Authenticator per (entry, store, mode): the store
	// content never changes, so whatever the cache holds equals the store and the
	// verdict of every call must still be the one of the table.
	for _, entry := range c04DirectEntries() {
		for _, state := range c04StoreStates {
			for _, strict := range []bool{true, false} {
				n := vk.N(400, 6000)
				if state == "connection-dies" {
					if !vk.Thorough() && entry.name != "stream" {
						continue
					}
					n = vk.N(24, 400)
				}
				r := m.Rand("rpc-history", entry.name, state, strict)
				seq := make([]c04Call, n)
				for i := range seq {
					seq[i] = calls[r.Intn(len(calls))]
				}
				scenario(entry, state, strict, seq)
			}
		}
	}
	stores.mu.Lock()
	m.Count("rpc.dead_store_connections_accepted", stores.deadConns)
	stores.mu.Unlock()
	m.Extra("exhaustive", true)
	m.Note("metadata shapes: %d; store states: %v; %d scenarios", len(calls), c04StoreStates, idx)
}

// ---- real grpc server over bufconn ------------------------------------------

type c04Wire struct {
	srv  *grpc.Server
	conn *grpc.ClientConn
	mu   sync.Mutex
	ran  int
}

func c04NewWire(a *auth.Authenticator) (*c04Wire, error) {
	w := &c04Wire{}
	lis := bufconn.Listen(1 << 16)
	w.srv = grpc.NewServer(
		grpc.ChainUnaryInterceptor(UnaryAuthorizeInterceptor(a),
			func(ctx context.Context, req interface{}, info *grpc.UnaryServerInfo, h grpc.UnaryHandler) (interface{}, error) {
				w.mu.Lock()
				w.ran++
				w.mu.Unlock()
				return h(ctx, req)
			}),
		grpc.ChainStreamInterceptor(StreamAuthorizeInterceptor(a),
			func(srv interface{}, ss grpc.ServerStream, info *grpc.StreamServerInfo, h grpc.StreamHandler) error {
				w.mu.Lock()
				w.ran++
				w.mu.Unlock()
				return h(srv, ss)
			}),
	)
	healthpb.RegisterHealthServer(w.srv, health.NewServer())
	go func() { _ = w.srv.Serve(lis) }()
	ctx, cancel := context.WithTimeout(context.Background(), 30*time.Second)
	defer cancel()
	conn, err := grpc.DialContext(ctx, "bufnet",
		grpc.WithContextDialer(func(ctx context.Context, _ string) (net.Conn, error) { return lis.DialContext(ctx) }),
		grpc.WithTransportCredentials(insecure.NewCredentials()), grpc.WithBlock())
	if err != nil {
		w.srv.Stop()
		return nil, err
	}
	w.conn = conn
	return w, nil
}

func (w *c04Wire) close() {
	_ = w.conn.Close()
	w.srv.Stop()
}

func (w *c04Wire) take() int {
	w.mu.Lock()
	defer w.mu.Unlock()
	n := w.ran
	w.ran = 0
	return n
}

// outgoing attaches the call's metadata the way a client does: through
// auth.Credential (per-RPC credentials) when both fields exist, raw metadata otherwise.
func (w *c04Wire) outgoing(c c04Call, useCredential bool) (context.Context, []grpc.CallOption) {
	ctx := context.Background()
	if c.NoMD {
		return ctx, nil
	}
	if useCredential && c.App != nil && c.Token != nil {
		return ctx, []grpc.CallOption{grpc.PerRPCCredentials(&auth.Credential{App: *c.App, Token: *c.Token})}
	}
	return metadata.NewOutgoingContext(ctx, c.md()), nil
}

// TestVerifC04RpcWire: the same table through a real grpc.Server/ClientConn.
func TestVerifC04RpcWire(t *testing.T) {
	logx.Disable()
	m := vk.New(t, "C04", c04RpcRule+" — here over a real grpc server (bufconn), metadata sent by the client (auth.Credential or raw metadata), health.Check as the unary and health.Watch as the streaming method")
	defer m.Done()
	stores, err := c04NewStores()
	if err != nil {
		m.Inconclusive("cannot start miniredis: %v", err)
		return
	}
	defer stores.close()
	calls := c04Calls()
	idx := 0
	for _, state := range c04StoreStates {
		for _, strict := range []bool{true, false} {
			for _, kind := range []string{"wire-unary", "wire-stream"} {
				for _, c := range calls {
					for _, cred := range []bool{false, true} {
						if cred && (c.NoMD || c.App == nil || c.Token == nil) {
							continue
						}
						if state == "connection-dies" && !vk.Thorough() && (cred || kind != "wire-unary") {
							continue // ~100 ms of client retries per store access: rest in the thorough tier
						}
						idx++
						if !m.Only(idx) {
							continue
						}
						desc := fmt.Sprintf("case=%d;entry=%s;store=%s;strict=%v;call=%s;via-credential=%v", idx, kind, state, strict, c.Name, cred)
						m.Current(desc)
						a, err := c04NewAuth(stores, state, strict)
						if err != nil {
							m.Inconclusive("NewAuthenticator: %v", err)
							return
						}
						w, err := c04NewWire(a)
						if err != nil {
							m.Inconclusive("cannot start grpc server on bufconn: %v", err)
							return
						}
						ctx, opts := w.outgoing(c, cred)
						ctx, cancel := context.WithTimeout(ctx, 60*time.Second)
						client := healthpb.NewHealthClient(w.conn)
						var out c04Outcome
						tc := time.Now()
						if kind == "wire-unary" {
							_, err = client.Check(ctx, &healthpb.HealthCheckRequest{}, opts...)
						} else {
							var st healthpb.Health_WatchClient
							st, err = client.Watch(ctx, &healthpb.HealthCheckRequest{}, opts...)
							if err == nil {
								_, err = st.Recv() // first status when admitted, the rejection status otherwise
							}
						}
						timedOut := ctx.Err() != nil
						cancel()
						out.err, out.code, out.dur = err, status.Code(err), time.Since(tc)
						out.ran = w.take()
						w.close()
						if timedOut {
							m.Inconclusive("rpc did not complete within 60 s: %s", desc)
							return
						}
						c04Judge(m, desc, kind, state, strict, c, out)
						m.Case(vk.Digest(kind, state, strict, c.Name, cred), true)
						if m.WantSample() && idx%53 == 9 {
							m.Sample(map[string]any{"entry": kind, "store": state, "strict": strict, "call": c.Name, "via_credential": cred,
								"handler_ran": out.ran, "grpc_code": out.code.String()})
						}
					}
				}
			}
		}
	}
	m.Extra("exhaustive", true)
}

// ---- exported for the external test package (c04_rpcstart_verif_test.go), which may
// import github.com/gotid/god/rpc without an import cycle ----------------------------

var (
	C04Calls       = c04Calls
	C04Expect      = c04Expect
	C04NewStores   = c04NewStores
	C04StoreStates = c04StoreStates
	C04RpcRule     = c04RpcRule
)

const C04AppsKey = c04AppsKey

func C04StoreAddr(s *c04Stores, state string) string { return s.addr(state) }
func C04CloseStores(s *c04Stores)                    { s.close() }
func C04MD(c c04Call) metadata.MD                    { return c.md() }

// C04JudgeWire judges a call observed at a client: "handler ran" is the OK status.
func C04JudgeWire(m *vk.M, desc, entry, state string, strict bool, c c04Call, err error, dur time.Duration) bool {
	out := c04Outcome{err: err, code: status.Code(err), dur: dur}
	if err == nil {
		out.ran = 1
	}
	return c04Judge(m, desc, entry, state, strict, c, out)
}
