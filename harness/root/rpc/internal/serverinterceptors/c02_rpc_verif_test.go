//go:build verif

package serverinterceptors

// C02 — unary RPC half (DESIGN.md §3 C02): the interceptors composed in the order
// of rpc/internal/server.go Start (tracing, crash, stat, prometheus, breaker) plus
// the timeout interceptor appended as rpc.setupInterceptors does, called
// directly with scripted handlers. Deterministic cases are gated (the handler
// stays parked until the caller holds its result); racing cases accept either
// legal outcome. Runs under the race detector.

import (
	"context"
	"errors"
	"fmt"
	"strings"
	"sync"
	"sync/atomic"
	"testing"
	"time"

	"github.com/gotid/god/lib/breaker"
	"github.com/gotid/god/lib/logx"
	"github.com/gotid/god/lib/stat"
	"google.golang.org/grpc"
	"google.golang.org/grpc/codes"
	"google.golang.org/grpc/status"
	"verif.local/vk"
)

const (
	c02Watchdog = 30 * time.Second
	c02Patience = 20 * time.Second
	c02Long     = 60 * time.Second
)

type c02Script struct {
	Kind    string `json:"kind"` // fast late cancel clientdeadline panic latepanic racing
	Code    int    `json:"code"` // the handler's own result code (0 = OK)
	Both    bool   `json:"both"` // return a non-nil reply together with the error
	SleepUs int    `json:"sleep_us,omitempty"`
	CtxWait bool   `json:"ctx_wait,omitempty"` // racing: wait for ctx.Done() and return at once
}

type c02Reply struct{ ID int64 }

type c02Run struct {
	id      int64
	sc      c02Script
	gate    chan struct{}
	entered chan struct{}
	blocked chan struct{}
	done    chan struct{}
	entries int32
	once    [3]sync.Once
	mu      sync.Mutex
	retSeq  int64
	ctxErr  string
	reply   *c02Reply
	err     error
}

func (r *c02Run) release() { r.once[0].Do(func() { close(r.gate) }) }

func (r *c02Run) handler(ctx context.Context, req interface{}) (interface{}, error) {
	if atomic.AddInt32(&r.entries, 1) == 1 {
		close(r.entered)
	}
	defer func() {
		r.mu.Lock()
		r.retSeq = vk.Seq()
		r.mu.Unlock()
		r.once[2].Do(func() { close(r.done) })
	}()
	waitCtx := func() {
		t := time.NewTimer(3 * c02Watchdog)
		defer t.Stop()
		select {
		case <-ctx.Done():
		case <-t.C:
		}
		r.mu.Lock()
		if e := ctx.Err(); e != nil {
			r.ctxErr = e.Error()
		}
		r.mu.Unlock()
		r.once[1].Do(func() { close(r.blocked) })
	}
	waitGate := func() {
		t := time.NewTimer(3 * c02Watchdog)
		defer t.Stop()
		select {
		case <-r.gate:
		case <-t.C:
		}
	}
	switch r.sc.Kind {
	case "late", "cancel", "clientdeadline":
		waitCtx()
		waitGate()
	case "park": // parks on the harness gate without looking at ctx
		r.once[1].Do(func() { close(r.blocked) })
		waitGate()
	case "latepanic":
		waitCtx()
		waitGate()
		panic(fmt.Sprintf("c02 scripted late panic %d", r.id))
	case "panic":
		panic(fmt.Sprintf("c02 scripted panic %d", r.id))
	case "racing":
		if r.sc.CtxWait {
			waitCtx()
		} else {
			time.Sleep(time.Duration(r.sc.SleepUs) * time.Microsecond)
		}
	}
	return r.result()
}

func (r *c02Run) result() (interface{}, error) {
	r.mu.Lock()
	defer r.mu.Unlock()
	if r.sc.Code != 0 {
		r.err = status.Error(codes.Code(r.sc.Code), fmt.Sprintf("c02 handler error %d", r.id))
		if r.sc.Both {
			r.reply = &c02Reply{ID: r.id}
			return r.reply, r.err
		}
		return nil, r.err
	}
	r.reply = &c02Reply{ID: r.id}
	return r.reply, nil
}

func (r *c02Run) ctxErrStr() string {
	r.mu.Lock()
	defer r.mu.Unlock()
	return r.ctxErr
}

func (r *c02Run) returned() int64 {
	r.mu.Lock()
	defer r.mu.Unlock()
	return r.retSeq
}

// c02Chain composes interceptors exactly like grpc.ChainUnaryInterceptor.
func c02Chain(ics []grpc.UnaryServerInterceptor) grpc.UnaryServerInterceptor {
	return func(ctx context.Context, req interface{}, info *grpc.UnaryServerInfo, handler grpc.UnaryHandler) (interface{}, error) {
		var build func(i int) grpc.UnaryHandler
		build = func(i int) grpc.UnaryHandler {
			if i == len(ics) {
				return handler
			}
			return func(ctx context.Context, req interface{}) (interface{}, error) {
				return ics[i](ctx, req, info, build(i+1))
			}
		}
		return build(0)(ctx, req)
	}
}

func c02ServerChain(metrics *stat.Metrics, timeout time.Duration) grpc.UnaryServerInterceptor {
	return c02Chain([]grpc.UnaryServerInterceptor{
		UnaryTracingInterceptor,
		UnaryCrashInterceptor,
		UnaryStatInterceptor(metrics),
		UnaryPrometheusInterceptor,
		UnaryBreakerInterceptor,
		UnaryTimeoutInterceptor(timeout), // appended by rpc.setupInterceptors via AddUnaryInterceptors
	})
}

type c02Out struct {
	resp     interface{}
	err      error
	panicked any
	seq      int64
}

func (o c02Out) String() string {
	if o.panicked != nil {
		return fmt.Sprintf("panic escaped: %v", o.panicked)
	}
	return fmt.Sprintf("resp=%v err=%v (code %v)", o.resp, o.err, status.Code(o.err))
}

var c02AcceptableCodes = []codes.Code{codes.Canceled, codes.InvalidArgument, codes.NotFound, codes.AlreadyExists, codes.PermissionDenied,
	codes.ResourceExhausted, codes.FailedPrecondition, codes.Aborted, codes.OutOfRange, codes.Unauthenticated, codes.Unknown}
var c02FailingCodes = []codes.Code{codes.DeadlineExceeded, codes.Internal, codes.Unavailable, codes.DataLoss, codes.Unimplemented}

type c02Group struct {
	m       *vk.M
	b       int
	method  string
	short   time.Duration
	chShort grpc.UnaryServerInterceptor
	chLong  grpc.UnaryServerInterceptor
	fails   int64 // results the method's breaker counted as failures
	nextID  *int64
}

func (g *c02Group) desc(run *c02Run) string {
	return fmt.Sprintf("case=%d;method=%s;short_timeout=%v;run=%d;script=%s", g.b, g.method, g.short, run.id, vk.JSON(run.sc))
}

func (g *c02Group) call(run *c02Run, ctx context.Context, chain grpc.UnaryServerInterceptor) <-chan c02Out {
	ch := make(chan c02Out, 1)
	go func() {
		var o c02Out
		o.panicked, _ = vk.Recover(func() {
			o.resp, o.err = chain(ctx, &c02Reply{ID: run.id}, &grpc.UnaryServerInfo{FullMethod: g.method}, run.handler)
		})
		o.seq = vk.Seq()
		ch <- o
	}()
	return ch
}

func c02Wait(ch <-chan c02Out, d time.Duration) (c02Out, bool) {
	t := time.NewTimer(d)
	defer t.Stop()
	select {
	case o := <-ch:
		return o, true
	case <-t.C:
		return c02Out{}, false
	}
}

func c02WaitCh(ch <-chan struct{}) bool {
	t := time.NewTimer(c02Watchdog)
	defer t.Stop()
	select {
	case <-ch:
		return true
	case <-t.C:
		return false
	}
}

// tolerated: the method's breaker may reject after it has seen failures (C01).
func (g *c02Group) tolerated(run *c02Run, o c02Out) bool {
	if atomic.LoadInt32(&run.entries) == 0 && o.panicked == nil && errors.Is(o.err, breaker.ErrServiceUnavailable) && atomic.LoadInt64(&g.fails) > 0 {
		g.m.Count("breaker_reject_tolerated", 1)
		return true
	}
	return false
}

func (g *c02Group) note(o c02Out) {
	if o.err != nil {
		for _, c := range c02FailingCodes {
			if status.Code(o.err) == c {
				atomic.AddInt64(&g.fails, 1)
			}
		}
	}
}

func (g *c02Group) isHandlerResult(run *c02Run, o c02Out) (bool, string) {
	run.mu.Lock()
	defer run.mu.Unlock()
	if o.panicked != nil {
		return false, "panic escaped the chain"
	}
	if run.sc.Code == 0 {
		if o.err != nil {
			return false, fmt.Sprintf("err %v, handler returned nil", o.err)
		}
	} else {
		if o.err == nil || status.Code(o.err) != codes.Code(run.sc.Code) || (run.err != nil && o.err.Error() != run.err.Error()) {
			return false, fmt.Sprintf("err %v, handler returned %v", o.err, run.err)
		}
	}
	// the reply that accompanies an error is meaningless in gRPC (the tracing
	// interceptor drops it): only compared on success
	if run.sc.Code == 0 && o.resp != interface{}(run.reply) {
		return false, fmt.Sprintf("resp %v, handler returned %v", o.resp, run.reply)
	}
	return true, ""
}

func c02IsStatus(o c02Out, code codes.Code) (bool, string) {
	if o.panicked != nil {
		return false, "panic escaped the chain"
	}
	if o.err == nil || status.Code(o.err) != code {
		return false, fmt.Sprintf("err %v (code %v), want code %v", o.err, status.Code(o.err), code)
	}
	if _, isStatus := status.FromError(o.err); !isStatus {
		return false, fmt.Sprintf("err %v is not a gRPC status", o.err)
	}
	if o.resp != nil {
		return false, fmt.Sprintf("resp %v returned together with %v: the handler's result must be discarded", o.resp, code)
	}
	return true, ""
}

func (g *c02Group) violate(sig string, run *c02Run, format string, a ...any) {
	g.m.Violate("C02:rpc:"+sig, g.desc(run), format, a...)
}

func (g *c02Group) scenario(sc c02Script) bool {
	m := g.m
	run := &c02Run{id: atomic.AddInt64(g.nextID, 1), sc: sc, gate: make(chan struct{}), entered: make(chan struct{}), blocked: make(chan struct{}), done: make(chan struct{})}
	defer run.release()
	ok := false
	switch sc.Kind {
	case "fast", "panic":
		o, got := c02Wait(g.call(run, context.Background(), g.chLong), c02Watchdog)
		if !got {
			m.Inconclusive("rpc %s: no result within the watchdog", sc.Kind)
			return false
		}
		g.note(o)
		if g.tolerated(run, o) {
			break
		}
		if sc.Kind == "fast" {
			if is, why := g.isHandlerResult(run, o); !is {
				g.violate("fast:not-handler-result", run, "%s | caller saw %s", why, o)
				return false
			}
			m.Count("result_handler", 1)
		} else {
			if is, why := c02IsStatus(o, codes.Internal); !is {
				g.violate("panic:not-internal", run, "handler panicked: %s | caller saw %s", why, o)
				return false
			}
			m.Count("result_panic_internal", 1)
		}
		ok = true
	case "late", "latepanic", "cancel", "clientdeadline":
		ctx, cancel := context.Background(), context.CancelFunc(func() {})
		chain, want := g.chShort, codes.DeadlineExceeded
		switch sc.Kind {
		case "cancel":
			ctx, cancel = context.WithCancel(ctx)
			chain, want = g.chLong, codes.Canceled
		case "clientdeadline":
			ctx, cancel = context.WithTimeout(ctx, g.short)
			chain = g.chLong
		}
		defer cancel()
		ch := g.call(run, ctx, chain)
		if sc.Kind == "cancel" {
			select {
			case <-run.entered:
				cancel()
			case o := <-ch:
				ch2 := make(chan c02Out, 1)
				ch2 <- o
				ch = ch2
			case <-time.After(c02Watchdog):
				m.Inconclusive("rpc cancel: handler not entered")
				return false
			}
		}
		if atomic.LoadInt64(&c02Hangs) > 0 {
			m.Count("gated_skipped_after_hang", 1)
			return false
		}
		o, got := c02Wait(ch, c02Patience)
		if !got {
			select {
			case <-run.blocked:
				// ctx.Done() has fired (the handler recorded it), the handler is provably still
				// parked on the harness gate (not opened yet) and the caller is still inside the
				// chain after a generous watchdog: it is answered when the handler returns, not
				// when the deadline passes / the caller cancels.
				atomic.AddInt64(&c02Hangs, 1)
				var dump strings.Builder
				for _, gr := range vk.GoroutinesIn("serverinterceptors.") {
					if dump.Len() < 6000 {
						dump.WriteString(gr + "\n\n")
					}
				}
				g.violate(sc.Kind+":caller-blocked-until-handler-returns", run, "the handler observed ctx.Done() (%q) and is parked on the harness gate; %v later the interceptor chain has not returned to the caller. Goroutines:\n%s", run.ctxErrStr(), c02Patience, dump.String())
				run.release()
				c02Wait(ch, c02Watchdog)
				return false
			default:
			}
			atomic.AddInt64(&c02Hangs, 1)
			m.Count("late_patience_expired", 1)
			run.release()
			if o, got = c02Wait(ch, c02Watchdog); !got {
				m.Inconclusive("rpc %s: no result within the watchdog", sc.Kind)
				return false
			}
		}
		g.note(o)
		if g.tolerated(run, o) {
			break
		}
		if is, why := c02IsStatus(o, want); !is {
			g.violate(sc.Kind+":not-"+want.String(), run, "handler blocked past ctx.Done() (ctx err %q) and was held until the caller had its result: %s | caller saw %s", run.ctxErrStr(), why, o)
			return false
		}
		m.Count("result_"+want.String(), 1)
		run.release()
		if !c02WaitCh(run.done) {
			m.Inconclusive("rpc %s: handler did not return after the gate opened", sc.Kind)
			return false
		}
		if sc.Kind == "latepanic" {
			m.Count("late_panics_survived", 1)
		}
		ok = true
	case "racing":
		o, got := c02Wait(g.call(run, context.Background(), g.chShort), c02Watchdog)
		if !got {
			m.Inconclusive("rpc racing: no result within the watchdog")
			return false
		}
		g.note(o)
		if g.tolerated(run, o) {
			break
		}
		if !c02WaitCh(run.done) {
			m.Inconclusive("rpc racing: handler did not return")
			return false
		}
		isH, whyH := g.isHandlerResult(run, o)
		isT, whyT := c02IsStatus(o, codes.DeadlineExceeded)
		switch {
		case isH:
			if rs := run.returned(); rs == 0 || rs > o.seq {
				g.violate("racing:handler-result-before-handler-returned", run, "result seq %d, handler returned seq %d", o.seq, rs)
				return false
			}
			m.Count("racing_handler_won", 1)
			m.Case(fmt.Sprintf("rpc|racing|handler|code=%d|ctxwait=%v", sc.Code, sc.CtxWait), true)
		case isT:
			m.Count("racing_deadline_won", 1)
			m.Case(fmt.Sprintf("rpc|racing|deadline|code=%d|ctxwait=%v", sc.Code, sc.CtxWait), true)
		default:
			g.violate("racing:neither-handler-result-nor-deadline", run, "not the handler's result (%s) and not DeadlineExceeded (%s) | caller saw %s", whyH, whyT, o)
			return false
		}
		return true
	}
	if n := atomic.LoadInt32(&run.entries); n > 1 {
		g.violate(sc.Kind+":handler-ran-twice", run, "handler entered %d times", n)
		return false
	}
	m.Case(fmt.Sprintf("rpc|%s|code=%d|both=%v", sc.Kind, sc.Code, sc.Both), ok)
	if ok && m.WantSample() && (sc.Kind == "late" || sc.Kind == "panic" || sc.Kind == "cancel") {
		c02SampleOnce(m, sc.Kind, map[string]any{"obs": "rpc", "method": g.method, "short_timeout": g.short.String(), "script": sc, "handler_ctx_err": run.ctxErrStr()})
	}
	return ok
}

// behindParked: ONE interceptor instance (as a real server has) serves a call
// whose handler is parked on the harness gate — either after that call has
// already been answered DeadlineExceeded (firstKind "clientdeadline": the
// caller's own deadline) or while it is simply still running ("park") — and then a
// second, non-blocking call. The second call must be entered and answered with
// its handler's result while the first handler is still parked: calls on one
// instance do not wait for each other.
func (g *c02Group) behindParked(firstKind string) bool {
	m := g.m
	if atomic.LoadInt64(&c02Hangs) > 0 {
		return false
	}
	newRun := func(sc c02Script) *c02Run {
		return &c02Run{id: atomic.AddInt64(g.nextID, 1), sc: sc, gate: make(chan struct{}), entered: make(chan struct{}), blocked: make(chan struct{}), done: make(chan struct{})}
	}
	first := newRun(c02Script{Kind: firstKind})
	defer first.release()
	ctx, cancel := context.Background(), context.CancelFunc(func() {})
	if firstKind == "clientdeadline" {
		ctx, cancel = context.WithTimeout(ctx, g.short)
	}
	defer cancel()
	ch1 := g.call(first, ctx, g.chLong)
	if firstKind == "clientdeadline" {
		o, got := c02Wait(ch1, c02Patience)
		if !got {
			m.Inconclusive("rpc behind-parked: first call unanswered")
			return false
		}
		g.note(o)
		if g.tolerated(first, o) {
			return false
		}
		if is, why := c02IsStatus(o, codes.DeadlineExceeded); !is {
			g.violate("clientdeadline:not-DeadlineExceeded", first, "%s | caller saw %s", why, o)
			return false
		}
	}
	if !c02WaitCh(first.blocked) {
		m.Inconclusive("rpc behind-parked: first handler did not park")
		return false
	}
	second := newRun(c02Script{Kind: "fast"})
	ch2 := g.call(second, context.Background(), g.chLong)
	o, got := c02Wait(ch2, c02Patience)
	if !got {
		atomic.AddInt64(&c02Hangs, 1)
		if atomic.LoadInt32(&second.entries) == 0 {
			var dump strings.Builder
			for _, gr := range vk.GoroutinesIn("serverinterceptors.") {
				if dump.Len() < 6000 {
					dump.WriteString(gr + "\n\n")
				}
			}
			g.violate("second-call-blocked-behind-parked-"+firstKind, second, "the same interceptor instance holds a call whose handler is parked on the harness gate (%s); a second non-blocking call issued %v ago has not even entered its handler. Goroutines:\n%s", firstKind, c02Patience, dump.String())
		} else {
			m.Inconclusive("rpc behind-parked: second call entered but unanswered after %v", c02Patience)
		}
		first.release()
		c02Wait(ch2, c02Watchdog)
		return false
	}
	g.note(o)
	if g.tolerated(second, o) {
		return false
	}
	if is, why := g.isHandlerResult(second, o); !is {
		g.violate("second-call-behind-parked-"+firstKind+":not-handler-result", second, "first call's handler still parked: %s | caller saw %s", why, o)
		return false
	}
	first.release()
	if firstKind == "park" {
		o1, got := c02Wait(ch1, c02Watchdog)
		if !got {
			m.Inconclusive("rpc behind-parked: first call unanswered after release")
			return false
		}
		if is, why := g.isHandlerResult(first, o1); !is {
			g.violate("park:not-handler-result", first, "%s | caller saw %s", why, o1)
			return false
		}
	}
	c02WaitCh(first.done)
	m.Count("second_call_served_behind_parked_"+firstKind, 1)
	m.Case("rpc|behind-parked|"+firstKind, true)
	return true
}

var c02Sampled sync.Map

// c02Hangs: gated calls still unanswered after c02Patience; once non-zero no
// further gated scenario is started (each would cost another c02Patience).
var c02Hangs int64

func c02SampleOnce(m *vk.M, key string, v map[string]any) {
	if _, dup := c02Sampled.LoadOrStore(key, true); !dup {
		m.Sample(v)
	}
}

const c02RPCRule = "unary chain tracing→crash→stat→prometheus→breaker→timeout called directly with scripted handlers: fast ⇒ exactly the handler's (reply, error); gated late ⇒ (nil, DeadlineExceeded); parent cancelled ⇒ (nil, Canceled); panic ⇒ (nil, Internal), never escaping; late panic survives; racing ⇒ handler result or DeadlineExceeded; under the race detector"

func TestVerifC02RPCChain(t *testing.T) {
	logx.Disable()
	m := vk.New(t, "C02", c02RPCRule)
	defer m.Done()
	metrics := stat.NewMetrics("c02-rpc")
	var nextID int64
	nb := vk.N(40, 800)
	sem := make(chan struct{}, 8)
	var wg sync.WaitGroup
	for b := 0; b < nb; b++ {
		if !m.Only(b) {
			continue
		}
		if m.ViolCount() > 0 {
			break
		}
		sem <- struct{}{}
		wg.Add(1)
		go func(b int) {
			defer wg.Done()
			defer func() { <-sem }()
			r := m.Rand("rpc", b)
			short := time.Duration(5+r.Intn(36)) * time.Millisecond
			// one breaker per method: <= 5 failing results per method keeps it closed
			mk := func(k int) *c02Group {
				return &c02Group{m: m, b: b, method: fmt.Sprintf("/c02.S%d/M%d", b, k), short: short,
					chShort: c02ServerChain(metrics, short), chLong: c02ServerChain(metrics, c02Long), nextID: &nextID}
			}
			m.Current(fmt.Sprintf("case=%d;short=%v", b, short))
			var bw sync.WaitGroup
			// group 0: acceptable outcomes only, many of them, concurrently
			g0 := mk(0)
			for w := 0; w < 4; w++ {
				bw.Add(1)
				rr := m.Rand("rpc", b, "ok", w)
				go func() {
					defer bw.Done()
					for i := 0; i < 12; i++ {
						sc := c02Script{Kind: "fast"}
						switch rr.Intn(4) {
						case 0:
							sc.Code = int(c02AcceptableCodes[rr.Intn(len(c02AcceptableCodes))])
							sc.Both = rr.Intn(3) == 0
						case 1:
							sc.Kind = "cancel" // Canceled is acceptable for the breaker
						}
						if !g0.scenario(sc) && m.ViolCount() > 0 {
							return
						}
					}
				}()
			}
			// one shared interceptor instance, overlapping calls
			bw.Add(1)
			g7 := mk(7)
			go func() {
				defer bw.Done()
				if g7.behindParked("clientdeadline") {
					g7.behindParked("park")
				}
			}()
			// groups 1..: failing outcomes, 4 per method, the methods in parallel
			for k := 1; k <= 6; k++ {
				bw.Add(1)
				g := mk(k)
				rr := m.Rand("rpc", b, "fail", k)
				go func() {
					defer bw.Done()
					for i := 0; i < 4; i++ {
						var sc c02Script
						switch x := rr.Intn(10); {
						case x < 3:
							sc = c02Script{Kind: "late", Code: []int{0, 0, int(codes.NotFound)}[rr.Intn(3)]}
						case x < 4:
							sc = c02Script{Kind: "latepanic"}
						case x < 5:
							sc = c02Script{Kind: "clientdeadline"}
						case x < 6:
							sc = c02Script{Kind: "panic"}
						case x < 7:
							sc = c02Script{Kind: "fast", Code: int(c02FailingCodes[rr.Intn(len(c02FailingCodes))]), Both: rr.Intn(3) == 0}
						default:
							sc = c02Script{Kind: "racing", Code: []int{0, 0, int(codes.NotFound)}[rr.Intn(3)], CtxWait: rr.Intn(3) == 0,
								SleepUs: int(float64(short/time.Microsecond) * (0.5 + rr.Float64()))}
						}
						if !g.scenario(sc) && m.ViolCount() > 0 {
							return
						}
					}
				}()
			}
			bw.Wait()
			m.Count("batches", 1)
		}(b)
	}
	wg.Wait()
}
