//go:build verif

package serverinterceptors

// C09 — UnarySheddingInterceptor integration (DESIGN.md §3 C09): same accounting
// oracle as for the HTTP middleware, with a scripted Shedder. Which handler errors
// map to Fail is recorded, not asserted; identical handler outcome => identical report is.

import (
	"context"
	"errors"
	"fmt"
	"io"
	"sync/atomic"
	"testing"
	"time"

	"github.com/gotid/god/lib/load"
	"github.com/gotid/god/lib/logx"
	"github.com/gotid/god/lib/stat"
	"google.golang.org/grpc"
	"google.golang.org/grpc/codes"
	"google.golang.org/grpc/status"
	"verif.local/vk"
)

type c09ScriptShedder struct {
	admit                      bool
	allows, passes, fails, dup int64
}

type c09ScriptPromise struct {
	s        *c09ScriptShedder
	reported int32
}

func (s *c09ScriptShedder) Allow() (load.Promise, error) {
	atomic.AddInt64(&s.allows, 1)
	if !s.admit {
		return nil, load.ErrServiceOverloaded
	}
	return &c09ScriptPromise{s: s}, nil
}

func (p *c09ScriptPromise) Pass() {
	if atomic.AddInt32(&p.reported, 1) > 1 {
		atomic.AddInt64(&p.s.dup, 1)
	}
	atomic.AddInt64(&p.s.passes, 1)
}

func (p *c09ScriptPromise) Fail() {
	if atomic.AddInt32(&p.reported, 1) > 1 {
		atomic.AddInt64(&p.s.dup, 1)
	}
	atomic.AddInt64(&p.s.fails, 1)
}

type c09Outcome struct {
	name  string
	err   error
	panic bool
}

var c09CtxKinds = []string{"live", "live", "live", "cancelled-on-arrival", "cancelled-mid-call", "cancelled-after-handler", "deadline-expired-on-arrival", "deadline-cancelled-mid-call"}

func c09Ctx(kind string) (ctx context.Context, mid, after func(), cleanup func()) {
	nop := func() {}
	switch kind {
	case "cancelled-on-arrival":
		c, cancel := context.WithCancel(context.Background())
		cancel()
		return c, nop, nop, nop
	case "cancelled-mid-call":
		c, cancel := context.WithCancel(context.Background())
		return c, cancel, nop, cancel
	case "cancelled-after-handler":
		c, cancel := context.WithCancel(context.Background())
		return c, nop, cancel, cancel
	case "deadline-expired-on-arrival":
		c, cancel := context.WithDeadline(context.Background(), time.Unix(1, 0))
		return c, nop, nop, cancel
	case "deadline-cancelled-mid-call":
		c, cancel := context.WithTimeout(context.Background(), time.Hour)
		return c, cancel, nop, cancel
	}
	return context.Background(), nop, nop, nop
}

func TestVerifC09SheddingInterceptor(t *testing.T) {
	m := vk.New(t, "C09", "seeded calls through UnarySheddingInterceptor with a scripted Shedder (admit/reject) and 8 handler outcomes (nil, context.DeadlineExceeded, wrapped deadline, gRPC DeadlineExceeded status, Canceled, io.EOF, Unavailable status, panic) x 6 call-context states (live, cancelled on arrival / mid-call / after the handler, deadline expired, deadline context cancelled mid-call); per call: Allow once; rejected => handler not run, error returned, no promise call; admitted => handler run once and exactly one of Pass/Fail reported when the interceptor returns or panics")
	defer m.Done()
	logx.Disable()
	metrics := stat.NewMetrics("c09-verif")
	outcomes := []c09Outcome{
		{name: "nil"},
		{name: "context.DeadlineExceeded", err: context.DeadlineExceeded},
		{name: "wrapped-deadline", err: fmt.Errorf("call: %w", context.DeadlineExceeded)},
		{name: "status-DeadlineExceeded", err: status.Error(codes.DeadlineExceeded, "deadline")},
		{name: "context.Canceled", err: context.Canceled},
		{name: "io.EOF", err: io.EOF},
		{name: "status-Unavailable", err: status.Error(codes.Unavailable, "down")},
		{name: "panic", panic: true},
	}
	n := vk.N(3000, 60000)
	r := m.Rand("rpc")
	mapping := map[string]int64{}
	verdict := map[string]string{} // handler outcome -> first observed report
	prev := "none"
	var rejected, admitted, panics int64
	for idx := 1; idx <= n; idx++ {
		oc := outcomes[r.Intn(len(outcomes))]
		admit := r.Intn(4) != 0
		if !m.Only(idx) {
			continue
		}
		ctxKind := c09CtxKinds[r.Intn(len(c09CtxKinds))]
		class := oc.name + "/ctx-" + ctxKind
		desc := fmt.Sprintf("case=%d;{\"admit\":%v,\"handler\":%q,\"call_context\":%q}", idx, admit, oc.name, ctxKind)
		cctx, mid, after, cleanup := c09Ctx(ctxKind)
		sh := &c09ScriptShedder{admit: admit}
		var served int64
		ic := UnarySheddingInterceptor(sh, metrics)
		var resp any
		var err error
		_, panicked := vk.Recover(func() {
			resp, err = ic(cctx, "req", &grpc.UnaryServerInfo{FullMethod: "/c09/verif"}, func(ctx context.Context, req any) (any, error) {
				atomic.AddInt64(&served, 1)
				mid()
				defer after()
				if oc.panic {
					panic("c09 handler panic")
				}
				return "resp", oc.err
			})
		})
		cleanup()
		if panicked {
			panics++
		}
		bad := false
		if sh.allows != 1 {
			m.Violate("C09:rpc:allow-not-called-once", desc, "Allow called %d times for one call", sh.allows)
			bad = true
		}
		if !admit {
			rejected++
			if served != 0 {
				m.Violate("C09:rpc:rejected-request-served", desc, "Allow rejected but the handler ran %d times", served)
				bad = true
			}
			if err == nil && !panicked {
				m.Violate("C09:rpc:rejected-request-no-error", desc, "Allow rejected but the interceptor returned resp=%v err=nil", resp)
				bad = true
			}
			if sh.passes+sh.fails != 0 {
				m.Violate("C09:rpc:promise-reported-for-rejected", desc, "Pass=%d Fail=%d", sh.passes, sh.fails)
				bad = true
			}
			if errors.Is(err, load.ErrServiceOverloaded) {
				mapping["rejected_err_ErrServiceOverloaded"]++
			} else {
				mapping["rejected_err_other"]++
			}
		} else {
			admitted++
			if served != 1 {
				m.Violate("C09:rpc:admitted-request-not-served-once", desc, "Allow admitted but the handler ran %d times", served)
				bad = true
			}
			if sh.passes+sh.fails != 1 || sh.dup != 0 {
				m.Violate("C09:rpc:promise-not-reported-exactly-once", desc, "admitted call (handler %s, panicked=%v): Pass=%d Fail=%d duplicate reports=%d", class, panicked, sh.passes, sh.fails, sh.dup)
				bad = true
			}
			out := "pass"
			if sh.fails > 0 {
				out = "fail"
			}
			mapping[fmt.Sprintf("admitted_%s_%s", oc.name, out)]++
			mapping[fmt.Sprintf("admitted_ctx-%s_%s", ctxKind, out)]++
			// the report must be a function of the request's own outcome: the same
			// handler outcome may not be reported differently depending on earlier requests
			if first, seen := verdict[class]; !seen {
				verdict[class] = out
			} else if first != out && sh.passes+sh.fails == 1 {
				m.Violate("C09:rpc:report-depends-on-earlier-request", desc, "handler outcome %s was reported as %s by earlier identical requests and as %s now (previous request: %s)", class, first, out, prev)
				bad = true
			}
		}
		m.Case(vk.Digest(admit, class), !bad)
		prev = desc
		if m.WantSample() && idx%7 == 1 {
			m.Sample(map[string]any{"scenario": desc, "allow_calls": sh.allows, "handler_runs": served, "pass": sh.passes, "fail": sh.fails, "err": fmt.Sprint(err), "panicked": panicked})
		}
	}
	m.Count("calls_admitted", admitted)
	m.Count("calls_rejected", rejected)
	m.Count("handler_panics", panics)
	for k, v := range mapping {
		m.Count(k, v)
	}
	m.Note("Pass/Fail mapping observed (recorded, not asserted): see counters admitted_<handler outcome>_<pass|fail>")
}
