//go:build verif

package serverinterceptors_test

// C04 — the RPC auth table through a server that is really STARTED the way the
// framework wires it: rpc.NewServer(ServerConfig{Auth: true, Redis: ..., StrictControl})
// -> setupInterceptors -> internal server Start (default interceptors + the registered
// unary AND stream authorize interceptors) on a TCP port; the client is a plain grpc
// ClientConn calling the built-in health service (Check = unary, Watch = server
// streaming). Verdict per call: c04Expect (transcription of the statement).

import (
	"context"
	"fmt"
	"net"
	"strings"
	"testing"
	"time"

	"github.com/gotid/god/lib/breaker"
	"github.com/gotid/god/lib/logx"
	"github.com/gotid/god/lib/store/redis"
	"github.com/gotid/god/rpc"
	si "github.com/gotid/god/rpc/internal/serverinterceptors"
	"google.golang.org/grpc"
	"google.golang.org/grpc/codes"
	"google.golang.org/grpc/credentials/insecure"
	healthpb "google.golang.org/grpc/health/grpc_health_v1"
	"google.golang.org/grpc/metadata"
	"google.golang.org/grpc/status"
	"verif.local/vk"
)

// c04StartServer starts rpc.NewServer(...).Start() on a free port. A lost race for the
// port (another process of this shared machine grabbing it) makes Start panic: that is
// recovered and the start retried on another port.
func c04StartServer(storeAddr string, strict bool) (*grpc.ClientConn, string, error) {
	var lastErr error
	for attempt := 0; attempt < 4; attempt++ {
		l, err := net.Listen("tcp", "127.0.0.1:0")
		if err != nil {
			return nil, "", err
		}
		addr := l.Addr().String()
		l.Close()
		var conf rpc.ServerConfig
		conf.Name = "c04-rpc"
		conf.Mode = "dev"
		conf.Log.Mode = "console"
		conf.ListenOn = addr
		conf.Auth = true
		conf.StrictControl = strict
		conf.Health = true
		conf.Redis = redis.KeyConfig{Config: redis.Config{Host: storeAddr, Type: redis.NodeType}, Key: si.C04AppsKey}
		srv, err := rpc.NewServer(conf, func(*grpc.Server) {})
		if err != nil {
			return nil, "", err
		}
		failed := make(chan any, 1)
		go func() {
			defer func() {
				if r := recover(); r != nil {
					failed <- r
				}
			}()
			srv.Start()
		}()
		ctx, cancel := context.WithTimeout(context.Background(), 20*time.Second)
		conn, err := grpc.DialContext(ctx, addr, grpc.WithTransportCredentials(insecure.NewCredentials()), grpc.WithBlock())
		cancel()
		select {
		case r := <-failed:
			if conn != nil {
				conn.Close()
			}
			lastErr = fmt.Errorf("Start failed on %s: %v", addr, r)
			continue
		default:
		}
		if err != nil {
			lastErr = fmt.Errorf("dial %s: %v", addr, err)
			continue
		}
		return conn, addr, nil
	}
	return nil, "", lastErr
}

func TestVerifC04RpcStartedServer(t *testing.T) {
	logx.Disable()
	m := vk.New(t, "C04", si.C04RpcRule+" — here through rpc.NewServer(Auth=true).Start() on TCP (the interceptor lists exactly as Start assembles them), unary health.Check and streaming health.Watch")
	defer m.Done()
	stores, err := si.C04NewStores()
	if err != nil {
		m.Inconclusive("cannot start miniredis: %v", err)
		return
	}
	defer si.C04CloseStores(stores)
	calls := si.C04Calls()
	idx := 0
	for _, state := range si.C04StoreStates {
		if state == "connection-dies" && !vk.Thorough() {
			continue // ~100 ms of redis client retries per access: thorough tier
		}
		for _, strict := range []bool{true, false} {
			conn, addr, err := c04StartServer(si.C04StoreAddr(stores, state), strict)
			if err != nil {
				m.Inconclusive("cannot start the rpc server: %v", err)
				return
			}
			m.Count("rpcstart.servers_started", 1)
			client := healthpb.NewHealthClient(conn)
			for round := 0; round < 2; round++ { // second round: whatever the server cached
				for _, kind := range []string{"started-unary", "started-stream"} {
					for _, c := range calls {
						idx++
						if !m.Only(idx) {
							continue
						}
						desc := fmt.Sprintf("case=%d;entry=%s;server=%s;store=%s;strict=%v;round=%d;call=%s", idx, kind, addr, state, strict, round, c.Name)
						m.Current(desc)
						ctx, cancel := context.WithTimeout(context.Background(), 60*time.Second)
						if !c.NoMD {
							ctx = metadata.NewOutgoingContext(ctx, si.C04MD(c))
						}
						t0 := time.Now()
						var err error
						if kind == "started-unary" {
							_, err = client.Check(ctx, &healthpb.HealthCheckRequest{})
						} else {
							var st healthpb.Health_WatchClient
							if st, err = client.Watch(ctx, &healthpb.HealthCheckRequest{}); err == nil {
								_, err = st.Recv()
							}
						}
						dur := time.Since(t0)
						cancel()
						switch status.Code(err) {
						case codes.Unavailable, codes.DeadlineExceeded, codes.Canceled, codes.ResourceExhausted:
							// breaker / transport / load: not a statement about authentication
							m.Inconclusive("%s: call ended with %v after %s", desc, err, dur)
							conn.Close()
							return
						}
						if admit, _ := si.C04Expect(c, state == "up", strict); admit && err != nil &&
							strings.Contains(status.Convert(err).Message(), breaker.ErrServiceUnavailable.Error()) {
							// the server's own circuit breaker (in front of auth) dropped the call
							m.Inconclusive("%s: dropped by the rpc server's circuit breaker: %v", desc, err)
							conn.Close()
							return
						}
						si.C04JudgeWire(m, desc, kind, state, strict, c, err, dur)
						m.Case(vk.Digest(kind, state, strict, round, c.Name), true)
						if m.WantSample() && idx%41 == 3 {
							m.Sample(map[string]any{"entry": kind, "store": state, "strict": strict, "call": c.Name, "grpc_code": status.Code(err).String()})
						}
						if m.ViolCount() > 60 {
							conn.Close()
							return
						}
					}
				}
			}
			conn.Close()
		}
	}
	m.Extra("exhaustive", true)
}
