//go:build verif

package internal

// C15 — the discov resolver builder turns subscriber updates into resolver
// state. A model etcd is bound to the cluster; discovBuilder.Build runs against a
// recording resolver.ClientConn. After Build and after every delivered
// registration/expiration the last state handed to cc.UpdateState must
// carry exactly the distinct values of the live keys.
//
// lib/discov/internal cannot be imported from here; the model etcd is put into
// that package's connection manager (a *syncx.ResourceManager keyed by the sorted,
// comma-joined endpoints) through a go:linkname reference to the variable. Only
// this test file knows about it; nothing of the repository is replaced.
//
// Handshake: the watch channel is unbuffered; a progress notification (response
// without events) sent after an event is accepted only when the watch goroutine
// is back in its loop, i.e. after the event and all listeners have run.

import (
	"context"
	"fmt"
	"io"
	"net/url"
	"sort"
	"strings"
	"sync"
	"sync/atomic"
	"testing"
	"time"
	_ "unsafe" // go:linkname

	"go.etcd.io/etcd/api/v3/etcdserverpb"
	"go.etcd.io/etcd/api/v3/mvccpb"
	clientv3 "go.etcd.io/etcd/client/v3"
	"google.golang.org/grpc"
	"google.golang.org/grpc/resolver"
	"google.golang.org/grpc/serviceconfig"

	"github.com/gotid/god/lib/logx"
	"github.com/gotid/god/lib/syncx"
	"verif.local/vk"
)

//go:linkname c15rConnManager github.com/gotid/god/lib/discov/internal.connManager
var c15rConnManager *syncx.ResourceManager

func c15rInject(hosts []string, cli io.Closer) error {
	eps := append([]string(nil), hosts...)
	sort.Strings(eps)
	if c15rConnManager == nil {
		return fmt.Errorf("connection manager of lib/discov/internal not reachable")
	}
	_, err := c15rConnManager.Get(strings.Join(eps, ","), func() (io.Closer, error) { return cli, nil })
	return err
}

const c15rWatchdog = 20 * time.Second

type c15rEtcd struct {
	mu      sync.Mutex
	store   map[string]string
	rev     int64
	watches []chan clientv3.WatchResponse
	gets    int
}

func (e *c15rEtcd) ActiveConnection() *grpc.ClientConn { return nil }
func (e *c15rEtcd) Close() error                       { return nil }
func (e *c15rEtcd) Ctx() context.Context               { return context.Background() }
func (e *c15rEtcd) Get(ctx context.Context, key string, opts ...clientv3.OpOption) (*clientv3.GetResponse, error) {
	e.mu.Lock()
	defer e.mu.Unlock()
	e.gets++
	var keys []string
	for k := range e.store {
		if strings.HasPrefix(k, key) {
			keys = append(keys, k)
		}
	}
	sort.Strings(keys)
	resp := &clientv3.GetResponse{Header: &etcdserverpb.ResponseHeader{Revision: e.rev}}
	for _, k := range keys {
		resp.Kvs = append(resp.Kvs, &mvccpb.KeyValue{Key: []byte(k), Value: []byte(e.store[k])})
	}
	return resp, nil
}
func (e *c15rEtcd) Watch(ctx context.Context, key string, opts ...clientv3.OpOption) clientv3.WatchChan {
	e.mu.Lock()
	defer e.mu.Unlock()
	ch := make(chan clientv3.WatchResponse)
	e.watches = append(e.watches, ch)
	return ch
}
func (e *c15rEtcd) Grant(ctx context.Context, ttl int64) (*clientv3.LeaseGrantResponse, error) {
	return nil, fmt.Errorf("c15: not used")
}
func (e *c15rEtcd) KeepAlive(ctx context.Context, id clientv3.LeaseID) (<-chan *clientv3.LeaseKeepAliveResponse, error) {
	return nil, fmt.Errorf("c15: not used")
}
func (e *c15rEtcd) Put(ctx context.Context, key, val string, opts ...clientv3.OpOption) (*clientv3.PutResponse, error) {
	return nil, fmt.Errorf("c15: not used")
}
func (e *c15rEtcd) Revoke(ctx context.Context, id clientv3.LeaseID) (*clientv3.LeaseRevokeResponse, error) {
	return nil, fmt.Errorf("c15: not used")
}

func (e *c15rEtcd) watchCount() int {
	e.mu.Lock()
	defer e.mu.Unlock()
	return len(e.watches)
}

func (e *c15rEtcd) lastWatch() chan clientv3.WatchResponse {
	e.mu.Lock()
	defer e.mu.Unlock()
	return e.watches[len(e.watches)-1]
}

// apply a change; returns the event etcd would send.
func (e *c15rEtcd) put(key, val string) *clientv3.Event {
	e.mu.Lock()
	defer e.mu.Unlock()
	e.rev++
	e.store[key] = val
	return &clientv3.Event{Type: clientv3.EventTypePut, Kv: &mvccpb.KeyValue{Key: []byte(key), Value: []byte(val), CreateRevision: e.rev, ModRevision: e.rev}}
}

func (e *c15rEtcd) del(key string) *clientv3.Event {
	e.mu.Lock()
	defer e.mu.Unlock()
	e.rev++
	delete(e.store, key)
	return &clientv3.Event{Type: clientv3.EventTypeDelete, Kv: &mvccpb.KeyValue{Key: []byte(key), ModRevision: e.rev}}
}

func (e *c15rEtcd) distinct() map[string]bool {
	e.mu.Lock()
	defer e.mu.Unlock()
	out := map[string]bool{}
	for _, v := range e.store {
		out[v] = true
	}
	return out
}

type c15rConn struct {
	mu      sync.Mutex
	onFirst func() // runs inside the first UpdateState call, after the state was recorded
	states  [][]string
	errs    int
}

func (c *c15rConn) UpdateState(s resolver.State) error {
	var addrs []string
	for _, a := range s.Addresses {
		addrs = append(addrs, a.Addr)
	}
	sort.Strings(addrs)
	c.mu.Lock()
	c.states = append(c.states, addrs)
	first := len(c.states) == 1
	hook := c.onFirst
	c.mu.Unlock()
	if first && hook != nil {
		hook() // a registry change that lands while the resolver is still being built
	}
	return nil
}
func (c *c15rConn) ReportError(error)                       { c.mu.Lock(); c.errs++; c.mu.Unlock() }
func (c *c15rConn) NewAddress(addresses []resolver.Address) {}
func (c *c15rConn) NewServiceConfig(serviceConfig string)   {}
func (c *c15rConn) ParseServiceConfig(string) *serviceconfig.ParseResult {
	return &serviceconfig.ParseResult{}
}

func (c *c15rConn) snapshot() (n int, last []string) {
	c.mu.Lock()
	defer c.mu.Unlock()
	n = len(c.states)
	if n > 0 {
		last = c.states[n-1]
	}
	return
}

var c15rSeq int64

func c15rSend(ch chan clientv3.WatchResponse, resp clientv3.WatchResponse) bool {
	t := time.NewTimer(c15rWatchdog)
	defer t.Stop()
	select {
	case ch <- resp:
		return true
	case <-t.C:
		return false
	}
}

func c15rSorted(set map[string]bool) []string {
	var out []string
	for v := range set {
		out = append(out, v)
	}
	sort.Strings(out)
	return out
}

func TestVerifC15ResolverState(t *testing.T) {
	logx.Disable()
	m := vk.New(t, "C15", "discovBuilder.Build on a recording resolver.ClientConn, model etcd behind the subscriber: after Build and after every delivered put/delete (progress-notification handshake) the last resolver state's address set == distinct values of the live keys (<= 32 values, so subset() is a permutation), and UpdateState was called when the set changed")
	defer m.Done()
	t0 := time.Now()
	defer func() { m.Extra("test_wall_s", time.Since(t0).Seconds()) }()
	n := vk.N(150, 4000)
	var nEvents, nUpdates int64
	for idx := 1; idx <= n; idx++ {
		if !m.Only(idx) {
			continue
		}
		r := m.Rand("resolver", idx)
		seq := atomic.AddInt64(&c15rSeq, 1)
		hosts := []string{fmt.Sprintf("c15r-%d-a.verif:2379", seq), fmt.Sprintf("c15r-%d-b.verif:2379", seq)}
		svc := "c15.resolver"
		e := &c15rEtcd{store: map[string]string{}, rev: 100}
		if err := c15rInject(hosts, e); err != nil {
			m.Inconclusive("case %d: inject: %v", idx, err)
			return
		}
		var ops []string
		desc := func() string { return fmt.Sprintf("case=%d;%s", idx, vk.JSON(ops)) }
		nKeys := 3 + r.Intn(5)
		pool := []string{"10.3.0.1:9", "10.3.0.2:9", "10.3.0.3:9"}[:2+r.Intn(2)]
		valOf := map[int]string{}
		present := map[int]bool{}
		change := func() *clientv3.Event {
			k := 1 + r.Intn(nKeys)
			key := fmt.Sprintf("%s/%d", svc, 2000+k)
			if present[k] {
				delete(present, k)
				ops = append(ops, fmt.Sprintf("del %d", k))
				return e.del(key)
			}
			if _, ok := valOf[k]; !ok {
				valOf[k] = pool[r.Intn(len(pool))]
			}
			present[k] = true
			ops = append(ops, fmt.Sprintf("put %d=%s", k, valOf[k]))
			return e.put(key, valOf[k])
		}
		for i := r.Intn(3); i > 0; i-- {
			change()
		}
		cc := &c15rConn{}
		b := &discovBuilder{}
		ops = append(ops, "build")
		duringBuild, hookFailed := idx%2 == 0, false
		if duringBuild {
			// While Build is pushing its first state, a publisher registers/expires: the event
			// is delivered through the watch and processed completely (progress handshake)
			// before that first UpdateState returns.
			cc.onFirst = func() {
				if !vk.WaitUntil(c15rWatchdog, func() bool { return e.watchCount() >= 1 }) {
					hookFailed = true
					return
				}
				ops = append(ops, "during-first-UpdateState:")
				ev := change()
				ch := e.lastWatch()
				e.mu.Lock()
				rev := e.rev
				e.mu.Unlock()
				if !c15rSend(ch, clientv3.WatchResponse{Header: etcdserverpb.ResponseHeader{Revision: rev}, Events: []*clientv3.Event{ev}}) ||
					!c15rSend(ch, clientv3.WatchResponse{Header: etcdserverpb.ResponseHeader{Revision: rev}}) {
					hookFailed = true
				}
			}
		}
		var err error
		if !vk.Within(c15rWatchdog, func() {
			_, err = b.Build(resolver.Target{URL: url.URL{Scheme: DiscovSchema, Host: strings.Join(hosts, EndpointSep), Path: "/" + svc}}, cc, resolver.BuildOptions{})
		}) {
			stuck := ""
			for _, g := range vk.GoroutinesIn("discov.NewSubscriber") {
				if strings.Contains(g, "sync.(*Mutex).Lock") && strings.Contains(g, "lib/discov/internal.") {
					stuck = g
				}
			}
			if stuck != "" {
				if len(stuck) > 1800 {
					stuck = stuck[:1800]
				}
				m.Violate("C15:attach:hang:cluster-lock", desc(), "discovBuilder.Build did not return within %v: NewSubscriber is parked on a lock of the registry that nobody is going to release:\n%s", c15rWatchdog, stuck)
			} else {
				m.Inconclusive("case %d: Build did not return within %v", idx, c15rWatchdog)
			}
			return
		}
		if err != nil {
			m.Inconclusive("case %d: Build: %v", idx, err)
			return
		}
		failed := false
		check := func(phase string, prevN int, prevSet map[string]bool) bool {
			want := e.distinct()
			nNow, last := cc.snapshot()
			got := map[string]bool{}
			for _, a := range last {
				got[a] = true
			}
			same := len(want) == len(prevSet)
			for v := range want {
				if !prevSet[v] {
					same = false
				}
			}
			if prevN >= 0 && !same && nNow == prevN {
				m.Violate("C15:resolver:no-update:"+phase, desc(), "live value set changed %v -> %v but cc.UpdateState was not called (calls so far %d)", c15rSorted(prevSet), c15rSorted(want), nNow)
				return false
			}
			eq := len(got) == len(want) && len(last) == len(got)
			for v := range want {
				if !got[v] {
					eq = false
				}
			}
			if !eq {
				m.Violate("C15:resolver:state-mismatch:"+phase, desc(), "last resolver state %v, distinct values of live keys %v (UpdateState calls %d)", last, c15rSorted(want), nNow)
				return false
			}
			return true
		}
		if !vk.WaitUntil(c15rWatchdog, func() bool { return e.watchCount() >= 1 }) {
			m.Inconclusive("case %d: no Watch call after Build", idx)
			return
		}
		if hookFailed {
			m.Inconclusive("case %d: the change during Build could not be delivered", idx)
			return
		}
		phase0 := "after-build"
		if duringBuild {
			phase0 = "change-during-build"
		}
		if !check(phase0, -1, nil) {
			failed = true
		}
		watch := e.lastWatch()
		progress := func() bool {
			e.mu.Lock()
			rev := e.rev
			e.mu.Unlock()
			return c15rSend(watch, clientv3.WatchResponse{Header: etcdserverpb.ResponseHeader{Revision: rev}})
		}
		steps := 8 + r.Intn(16)
		for i := 0; i < steps && !failed; i++ {
			prevN, _ := cc.snapshot()
			prevSet := e.distinct()
			ev := change()
			e.mu.Lock()
			rev := e.rev
			e.mu.Unlock()
			if !c15rSend(watch, clientv3.WatchResponse{Header: etcdserverpb.ResponseHeader{Revision: rev}, Events: []*clientv3.Event{ev}}) || !progress() {
				m.Inconclusive("case %d: watcher did not take an event", idx)
				return
			}
			nEvents++
			if !check("after-watch-event", prevN, prevSet) {
				failed = true
			}
		}
		nu, last := cc.snapshot()
		nUpdates += int64(nu)
		m.Case(vk.Digest(vk.JSON(ops)), nu > 1)
		if m.WantSample() && idx%37 == 1 {
			m.Sample(map[string]any{"case": idx, "ops": ops, "UpdateState_calls": nu, "last_state": last, "live_values": c15rSorted(e.distinct())})
		}
	}
	m.Count("watch_events_delivered", nEvents)
	m.Count("UpdateState_calls", nUpdates)
}
