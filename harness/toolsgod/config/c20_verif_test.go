//go:build verif

package config

// C20 — NewConfig never panics; empty input selects the default naming format.

import (
	"fmt"
	"testing"

	"verif.local/vk"
)

func TestVerifC20Config(t *testing.T) {
	m := vk.New(t, "C20", "NewConfig over arbitrary strings: no panic; empty string yields the default template, any other string is kept verbatim")
	defer m.Done()
	r := m.Rand("config")
	n := vk.N(5000, 100000)
	for idx := 0; idx < n; idx++ {
		b := make([]byte, r.Intn(10))
		for i := range b {
			b[i] = byte(r.Intn(256))
		}
		s := string(b)
		var cfg *Config
		pv, p := vk.Recover(func() { cfg, _ = NewConfig(s) })
		switch {
		case p:
			m.Violate("C20:panic:NewConfig", fmt.Sprintf("case=%d;%q", idx, s), "panic %v", pv)
		case s == "" && cfg.NamingFormat != DefaultFormat:
			m.Violate("C20:config-default", fmt.Sprintf("case=%d;%q", idx, s), "empty format -> %q", cfg.NamingFormat)
		case s != "" && cfg.NamingFormat != s:
			m.Violate("C20:config-format-altered", fmt.Sprintf("case=%d;%q", idx, s), "format %q stored as %q", s, cfg.NamingFormat)
		}
		m.Case(fmt.Sprintf("%q", s), true)
	}
	// templates that are valid by the statement (go ... designer, uniform casing) must reach the
	// generator: NewConfig keeps them verbatim and reports no error; "" selects the default
	valid := 0
	for _, pre := range []string{"", "x_", "A-", "1"} {
		for _, g := range []string{"go", "Go", "GO"} {
			for _, mid := range []string{"", "_", "-", "#", "__"} {
				for _, d := range []string{"designer", "Designer", "DESIGNER"} {
					for _, suf := range []string{"", ".x", "_z", "9"} {
						tpl := pre + g + mid + d + suf
						var cfg *Config
						var err error
						pv, p := vk.Recover(func() { cfg, err = NewConfig(tpl) })
						switch {
						case p:
							m.Violate("C20:panic:NewConfig", fmt.Sprintf("case=%d;%q", n+valid, tpl), "panic %v", pv)
						case err != nil:
							m.Violate("C20:config-valid-template-rejected", fmt.Sprintf("case=%d;%q", n+valid, tpl), "NewConfig(%q) = %v", tpl, err)
						case cfg == nil || cfg.NamingFormat != tpl:
							m.Violate("C20:config-format-altered", fmt.Sprintf("case=%d;%q", n+valid, tpl), "format %q not kept", tpl)
						}
						valid++
						m.Case("valid:"+tpl, true)
					}
				}
			}
		}
	}
	if cfg, err := NewConfig(""); err != nil || cfg == nil || cfg.NamingFormat != DefaultFormat {
		m.Violate("C20:config-default", "case=-1;\"\"", "NewConfig(\"\") = %+v, %v", cfg, err)
	}
	// results are independent: changing a returned Config must not change what a later call returns
	for i, in := range []string{"", "go_designer", ""} {
		a, _ := NewConfig(in)
		want := in
		if in == "" {
			want = DefaultFormat
		}
		if a == nil || a.NamingFormat != want {
			m.Violate("C20:config-depends-on-earlier-call", fmt.Sprintf("case=%d;%q", n+valid+i, in), "NewConfig(%q) returned %+v after an earlier result was modified, want format %q", in, a, want)
			continue
		}
		a.NamingFormat = "Mutated_By_Caller"
		b, _ := NewConfig(in)
		if b == nil || b.NamingFormat != want {
			m.Violate("C20:config-depends-on-earlier-call", fmt.Sprintf("case=%d;%q", n+valid+i, in), "NewConfig(%q) returned %+v after the previous result's field was changed by its owner, want format %q", in, b, want)
		}
	}
	m.Count("valid_templates_accepted", int64(valid))
	m.Sample(map[string]any{"cases": n, "valid_templates": valid})
}
