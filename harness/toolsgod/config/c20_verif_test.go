//go:build verif

package config

// C20 — NewConfig never panics; empty input selects the default naming format.

import (
	"fmt"
	"testing"

	"verif.local/vk"
)

func TestVerifC20Config(t *testing.T) {
	m := vk.New(t, "C20", "NewConfig over arbitrary strings: no panic; empty string yields the default template, any other string is kept verbatim")
	defer m.Done()
	r := m.Rand("config")
	n := vk.N(5000, 100000)
	for idx := 0; idx < n; idx++ {
		b := make([]byte, r.Intn(10))
		for i := range b {
			b[i] = byte(r.Intn(256))
		}
		s := string(b)
		var cfg *Config
		pv, p := vk.Recover(func() { cfg, _ = NewConfig(s) })
		switch {
		case p:
			m.Violate("C20:panic:NewConfig", fmt.Sprintf("case=%d;%q", idx, s), "panic %v", pv)
		case s == "" && cfg.NamingFormat != DefaultFormat:
			m.Violate("C20:config-default", fmt.Sprintf("case=%d;%q", idx, s), "empty format -> %q", cfg.NamingFormat)
		case s != "" && cfg.NamingFormat != s:
			m.Violate("C20:config-format-altered", fmt.Sprintf("case=%d;%q", idx, s), "format %q stored as %q", s, cfg.NamingFormat)
		}
		m.Case(fmt.Sprintf("%q", s), true)
	}
	m.Sample(map[string]any{"cases": n})
}
