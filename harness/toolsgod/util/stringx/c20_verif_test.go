//go:build verif

package stringx

// C20 — identifier conversions: snake -> camel -> snake round trip on lower-case
// ASCII words joined by single underscores; no conversion panics on any string.

import (
	"fmt"
	"math/rand"
	"strings"
	"testing"

	"verif.local/vk"
)

func c20sWord(r *rand.Rand) string {
	n := 1 + r.Intn(7)
	b := make([]byte, n)
	for i := range b {
		b[i] = byte('a' + r.Intn(26))
	}
	return string(b)
}

func c20sArbitrary(r *rand.Rand) string {
	n := r.Intn(12)
	var b []byte
	for i := 0; i < n; i++ {
		switch r.Intn(6) {
		case 0:
			b = append(b, byte(r.Intn(256)))
		case 1:
			b = append(b, []string{"_", "__", "é", "中", "İ", "ǆ", "ß", " ", "\t", "\xff\xfe"}[r.Intn(10)]...)
		case 2:
			b = append(b, byte('A'+r.Intn(26)))
		default:
			b = append(b, byte('a'+r.Intn(26)))
		}
	}
	return string(b)
}

func TestVerifC20Stringx(t *testing.T) {
	m := vk.New(t, "C20", "identifiers of 1-6 lower-case ASCII words ([a-z]{1,7}) joined by single underscores: ToSnake(ToCamel(s)) == s; arbitrary byte strings through ToCamel/ToSnake/Title/UnTitle/ToLower/ToUpper: no panic, deterministic; non-trivial = >= 2 words")
	defer m.Done()
	n := vk.N(60000, 3000000)
	r := m.Rand("stringx")
	var digitObs, digitBroken int64
	for idx := 1; idx <= n; idx++ {
		nw := 1 + r.Intn(6)
		words := make([]string, nw)
		for i := range words {
			words[i] = c20sWord(r)
		}
		s := strings.Join(words, "_")
		arb := c20sArbitrary(r)
		if !m.Only(idx) {
			continue
		}
		var camel, back string
		if pv, p := vk.Recover(func() { camel = From(s).ToCamel(); back = From(camel).ToSnake() }); p {
			m.Violate("C20:panic:round-trip", fmt.Sprintf("case=%d;%q", idx, s), "panic %v", pv)
			continue
		}
		if back != s {
			m.Violate("C20:snake-camel-round-trip", fmt.Sprintf("case=%d;%q", idx, s), "ToCamel=%q, ToSnake back=%q, want %q", camel, back, s)
		}
		m.Case(s, nw >= 2)
		// words containing digits in non-leading position: observation only (outside "ASCII words")
		if idx%10 == 0 {
			d := words[0] + fmt.Sprint(r.Intn(10)) + "_" + c20sWord(r)
			digitObs++
			if From(From(d).ToCamel()).ToSnake() != d {
				digitBroken++
			}
		}
		for _, f := range []struct {
			name string
			fn   func(String) string
		}{
			{"ToCamel", String.ToCamel}, {"ToSnake", String.ToSnake}, {"Title", String.Title},
			{"UnTitle", String.UnTitle}, {"ToLower", String.ToLower}, {"ToUpper", String.ToUpper},
		} {
			var a, b string
			pv, p := vk.Recover(func() { a = f.fn(From(arb)); b = f.fn(From(arb)) })
			if p {
				m.Violate("C20:panic:"+f.name, fmt.Sprintf("case=%d;%q", idx, arb), "%s(%q) panicked: %v", f.name, arb, pv)
			} else if a != b {
				m.Violate("C20:nondeterministic:"+f.name, fmt.Sprintf("case=%d;%q", idx, arb), "%q then %q", a, b)
			}
		}
		m.Count("arbitrary_strings_converted", 1)
		if m.WantSample() && idx%14983 == 1 {
			m.Sample(map[string]any{"identifier": s, "camel": camel, "snake_back": back, "arbitrary": fmt.Sprintf("%q", arb)})
		}
	}
	m.Count("digit_words_observed", digitObs)
	m.Count("digit_words_round_trip_differs", digitBroken)
	m.Note("identifiers whose words contain digits are observed but not asserted (the statement speaks of lower-case ASCII words)")
}
