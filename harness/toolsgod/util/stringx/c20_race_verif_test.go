//go:build verif

package stringx

// C20 — "the result depends on nothing but these inputs": the conversions are
// called from 16 goroutines at once and every result is compared with the value
// computed sequentially beforehand; run under the race detector.

import (
	"fmt"
	"strings"
	"sync"
	"testing"

	"verif.local/vk"
)

func TestVerifC20StringxRace(t *testing.T) {
	m := vk.New(t, "C20", "16 goroutines x 400-4000 conversions (ToCamel, ToSnake, Title, UnTitle and the snake->camel->snake round trip) over a shared list of identifiers; each concurrent result must equal the sequentially precomputed one; under the race detector")
	defer m.Done()
	r := m.Rand("race")
	n := vk.N(400, 4000)
	idents := make([]string, n)
	for i := range idents {
		nw := 1 + r.Intn(6)
		ws := make([]string, nw)
		for j := range ws {
			ws[j] = c20sWord(r)
		}
		idents[i] = strings.Join(ws, "_")
	}
	type exp struct{ camel, back, title, untitle string }
	want := make([]exp, n)
	for i, s := range idents {
		c := From(s).ToCamel()
		want[i] = exp{c, From(c).ToSnake(), From(s).Title(), From(c).UnTitle()}
	}
	var wg sync.WaitGroup
	var mu sync.Mutex
	bad := 0
	first := ""
	for g := 0; g < 16; g++ {
		wg.Add(1)
		go func(g int) {
			defer wg.Done()
			for k := 0; k < n; k++ {
				i := (k*7 + g*31) % n
				s := idents[i]
				var got exp
				pv, p := vk.Recover(func() {
					c := From(s).ToCamel()
					got = exp{c, From(c).ToSnake(), From(s).Title(), From(c).UnTitle()}
				})
				if p || got != want[i] {
					mu.Lock()
					bad++
					if first == "" {
						first = fmt.Sprintf("identifier %q: concurrent %+v (panic %v), sequential %+v", s, got, pv, want[i])
					}
					mu.Unlock()
				}
			}
		}(g)
	}
	wg.Wait()
	if bad > 0 {
		m.Violate("C20:nondeterministic:concurrent-conversion", "case=0;seed-derived identifier list", "%d of %d concurrent conversions differ from the sequential result; first: %s", bad, 16*n, first)
	}
	m.Count("concurrent_conversions", int64(16*n))
	m.Case("concurrent-stringx", true)
	m.Case("sequential-reference", true)
	m.Sample(map[string]any{"identifiers": n, "goroutines": 16, "mismatches": bad, "example": idents[0], "camel": want[0].camel})
}
