//go:build verif

package format

// C20 — FileNamingFormat from 16 goroutines at once: every result must equal
// the sequentially precomputed one; run under the race detector.

import (
	"fmt"
	"sync"
	"testing"

	"verif.local/vk"
)

func TestVerifC20FormatRace(t *testing.T) {
	m := vk.New(t, "C20", "16 goroutines x 600-6000 FileNamingFormat calls over a shared list of (template, identifier) pairs (valid templates with hostile fillers and arbitrary byte strings); each concurrent result/error must equal the sequentially precomputed one; under the race detector")
	defer m.Done()
	r := m.Rand("race")
	n := vk.N(600, 6000)
	type call struct {
		tmpl, ident string
		res         string
		failed      bool
	}
	calls := make([]call, n)
	for i := range calls {
		c := call{tmpl: c20Arbitrary(r), ident: c20Ident(r)}
		if i%2 == 0 {
			c.tmpl = c20Filler(r) + c20WordCase(r, "go", true) + c20Filler(r) + c20WordCase(r, "designer", true) + c20Filler(r)
		}
		res, err, _, panicked := c20Call(c.tmpl, c.ident)
		c.res, c.failed = res, err != nil || panicked
		calls[i] = c
	}
	var wg sync.WaitGroup
	var mu sync.Mutex
	bad := 0
	first := ""
	for g := 0; g < 16; g++ {
		wg.Add(1)
		go func(g int) {
			defer wg.Done()
			for k := 0; k < n; k++ {
				c := calls[(k*11+g*37)%n]
				res, err, pv, panicked := c20Call(c.tmpl, c.ident)
				if res != c.res || (err != nil || panicked) != c.failed {
					mu.Lock()
					bad++
					if first == "" {
						first = fmt.Sprintf("template %q identifier %q: concurrent (%q, %v, panic %v), sequential (%q, failed %v)", c.tmpl, c.ident, res, err, pv, c.res, c.failed)
					}
					mu.Unlock()
				}
			}
		}(g)
	}
	wg.Wait()
	if bad > 0 {
		m.Violate("C20:nondeterministic:concurrent-format", "case=0;seed-derived call list", "%d of %d concurrent calls differ from the sequential result; first: %s", bad, 16*n, first)
	}
	m.Count("concurrent_calls", int64(16*n))
	m.Case("concurrent-format", true)
	m.Case("sequential-reference", true)
	m.Sample(map[string]any{"calls": n, "goroutines": 16, "mismatches": bad})
}
