//go:build verif

package format

// C20 — generator naming monitor (DESIGN.md §3 C20): FileNamingFormat against a
// reference renderer written from the statement, over generated templates
// (valid with arbitrary prefix/through/suffix incl. multi-byte and invalid
// UTF-8; invalid: missing word, wrong order, mixed casing) and identifiers;
// plus no-panic / determinism over arbitrary byte strings, across goroutines and
// across a second process with a different locale, time zone and directory.

import (
	"crypto/sha256"
	"encoding/hex"
	"fmt"
	"math/rand"
	"os"
	"os/exec"
	"strings"
	"sync"
	"testing"
	"unicode"
	"unicode/utf8"

	"verif.local/vk"
)

// ---- reference ------------------------------------------------------------

func c20IndexFoldAll(s, word string) []int {
	var out []int
	for i := 0; i+len(word) <= len(s); i++ {
		ok := true
		for j := 0; j < len(word); j++ {
			c := s[i+j]
			if 'A' <= c && c <= 'Z' {
				c += 32
			}
			if c != word[j] {
				ok = false
				break
			}
		}
		if ok {
			out = append(out, i)
		}
	}
	return out
}

// style of a template word: 'l' lower, 'u' upper, 't' title, 0 = mixed
func c20Style(w string) byte {
	switch {
	case w == strings.ToLower(w):
		return 'l'
	case w == strings.ToUpper(w):
		return 'u'
	case w[:1] == strings.ToUpper(w[:1]) && w[1:] == strings.ToLower(w[1:]):
		return 't'
	}
	return 0
}

func c20Words(ident string) []string {
	var out []string
	cur := ""
	for _, r := range ident {
		switch {
		case r == '_':
			if cur != "" {
				out = append(out, cur)
			}
			cur = ""
		case r >= 'A' && r <= 'Z':
			if cur != "" {
				out = append(out, cur)
			}
			cur = string(r)
		default:
			cur += string(r)
		}
	}
	if cur != "" {
		out = append(out, cur)
	}
	return out
}

func c20Case(w string, style byte) string {
	switch style {
	case 'l':
		return strings.ToLower(w)
	case 'u':
		return strings.ToUpper(w)
	}
	r, n := utf8.DecodeRuneInString(w)
	return string(unicode.ToTitle(r)) + w[n:]
}

// c20Ref renders per the statement for a template with exactly one occurrence of
// each word (go at ig, designer at id).
func c20Ref(tmpl, ident string, ig, id int) (string, bool) {
	if ig > id {
		return "", false
	}
	gs, ds := c20Style(tmpl[ig:ig+2]), c20Style(tmpl[id:id+8])
	if gs == 0 || ds == 0 {
		return "", false
	}
	var parts []string
	for i, w := range c20Words(ident) {
		if i == 0 {
			parts = append(parts, c20Case(w, gs))
		} else {
			parts = append(parts, c20Case(w, ds))
		}
	}
	return tmpl[:ig] + strings.Join(parts, tmpl[ig+2:id]) + tmpl[id+8:], true
}

// ---- generators -----------------------------------------------------------

var c20Fillers = []string{"", "_", "-", ".", "x", "__", "é", "ü", "中文", "ж", "ɐ", "ı", "ſ", "ß", "ǆ", "\xff", "\xc3", "a\x80b", "İ", " ", "K", "ﬁ", "1", "zz-",
	// proper prefixes of the two words: a matcher must not lose the word that follows a partial match
	"g", "G", "d", "D", "de", "Des", "design", "DESIGNE", "bigG", "og",
	// text that means something to a formatting or pattern layer, which prefix / separator / suffix must never reach
	"%", "%s", "%d", "100%", "%%", "%v_", "%!", "\\", "$1", "{}", "*",
	// long stretches: the two words may lie anywhere in a template of any length
	strings.Repeat("x", 61), strings.Repeat("ab_", 30), strings.Repeat("é", 40), strings.Repeat("-", 300)}

func c20Filler(r *rand.Rand) string {
	n := r.Intn(3)
	s := ""
	for i := 0; i < n; i++ {
		s += c20Fillers[r.Intn(len(c20Fillers))]
	}
	return s
}

func c20WordCase(r *rand.Rand, w string, valid bool) string {
	if valid {
		switch r.Intn(3) {
		case 0:
			return strings.ToLower(w)
		case 1:
			return strings.ToUpper(w)
		default:
			return strings.ToUpper(w[:1]) + strings.ToLower(w[1:])
		}
	}
	for {
		b := []byte(strings.ToLower(w))
		for i := range b {
			if r.Intn(2) == 0 {
				b[i] -= 32
			}
		}
		if c20Style(string(b)) == 0 {
			return string(b)
		}
	}
}

func c20Ident(r *rand.Rand) string {
	alpha := []string{"a", "b", "user", "id", "X", "A", "URL", "Http", "_", "__", "1", "42", "é", "ü", "中", "ж", "order", "Z9",
		// upper-case letters outside ASCII: they do not start a word (only A-Z do) but take the word's casing
		"É", "Ü", "Ж", "Σ", "Àb", "oÉ"}
	n := r.Intn(6)
	s := ""
	for i := 0; i < n; i++ {
		s += alpha[r.Intn(len(alpha))]
	}
	return s
}

func c20Q(s string) string { return fmt.Sprintf("%q", s) }

func c20Call(tmpl, ident string) (res string, err error, pv any, panicked bool) {
	pv, panicked = vk.Recover(func() { res, err = FileNamingFormat(tmpl, ident) })
	return
}

func c20ClassOfTemplate(tmpl string) string {
	for _, r := range tmpl {
		if r == utf8.RuneError {
			return "invalid-utf8"
		}
	}
	if len(strings.ToUpper(tmpl)) != len(tmpl) || len(strings.ToLower(tmpl)) != len(tmpl) {
		return "case-mapping-changes-byte-length"
	}
	if !utf8.ValidString(tmpl) {
		return "invalid-utf8"
	}
	for i := 0; i < len(tmpl); i++ {
		if tmpl[i] >= 0x80 {
			return "multi-byte"
		}
	}
	return "ascii"
}

func TestVerifC20Format(t *testing.T) {
	m := vk.New(t, "C20", "seeded templates: prefix + go-word + through + designer-word + suffix with fillers from ASCII punctuation, multi-byte letters, letters whose case mapping changes byte length, invalid UTF-8 (exactly one case-insensitive ASCII occurrence of each word, checked by the generator) x identifiers from letters/digits/underscores/acronyms/unicode; invalid templates (missing word, reversed order, mixed casing); result compared with a reference renderer; non-trivial = identifier with >= 2 words")
	defer m.Done()
	n := vk.N(150000, 6000000)
	r := m.Rand("format")
	counts := map[string]int64{}
	for idx := 1; idx <= n; idx++ {
		var tmpl, class string
		ident := c20Ident(r)
		kind := r.Intn(10)
		pre, thr, suf := c20Filler(r), c20Filler(r), c20Filler(r)
		switch {
		case kind < 6:
			class = "valid"
			ext := ""
			if r.Intn(8) == 0 {
				// file-extension suffixes: occurrences of 'go' AFTER 'designer' are suffix text
				ext = []string{".go", ".pb.go", "_gen.go", ".GO", ".go.tpl", "-go_designer", "godesigner", "_Designer", ".designer.go"}[r.Intn(9)]
				class = "valid-go-in-suffix"
			}
			tmpl = pre + c20WordCase(r, "go", true) + thr + c20WordCase(r, "designer", true) + suf + ext
		case kind == 6:
			class = "mixed-case"
			if r.Intn(2) == 0 {
				tmpl = pre + c20WordCase(r, "go", false) + thr + c20WordCase(r, "designer", true) + suf
			} else {
				tmpl = pre + c20WordCase(r, "go", true) + thr + c20WordCase(r, "designer", false) + suf
			}
		case kind == 7:
			class = "reversed"
			tmpl = pre + c20WordCase(r, "designer", true) + thr + c20WordCase(r, "go", true) + suf
		case kind == 8:
			class = "missing-go"
			tmpl = pre + thr + c20WordCase(r, "designer", true) + suf
		default:
			class = "missing-designer"
			tmpl = pre + c20WordCase(r, "go", true) + thr + suf
			if r.Intn(3) == 0 {
				// neither word: fillers only, incl. the empty and the blank template
				class = "missing-both"
				tmpl = []string{"", " ", "\t\n", "\u00a0", "\u3000", pre + thr + suf, "_", "  "}[r.Intn(8)]
			}
		}
		gos, des := c20IndexFoldAll(tmpl, "go"), c20IndexFoldAll(tmpl, "designer")
		wantGo, wantDe := 1, 1
		if class == "missing-go" {
			wantGo = 0
		}
		if class == "missing-designer" {
			wantDe = 0
		}
		if class == "missing-both" {
			wantGo, wantDe = 0, 0
		}
		if class == "valid-go-in-suffix" {
			// exactly one 'go' before the first 'designer'; every further occurrence of either word
			// lies after the end of that first 'designer', i.e. it is suffix text
			if len(des) == 0 || len(gos) == 0 {
				continue
			}
			before, inside := 0, false
			for _, g := range gos {
				if g < des[0] {
					before++
				} else if g < des[0]+8 {
					inside = true
				}
			}
			for _, d := range des[1:] {
				if d < des[0]+8 {
					inside = true
				}
			}
			if before != 1 || inside || gos[0] > des[0] {
				continue
			}
			class = "valid"
		} else if len(gos) != wantGo || len(des) != wantDe {
			continue // fillers accidentally formed another occurrence: not in this class
		}
		if !m.Only(idx) {
			continue
		}
		tclass := c20ClassOfTemplate(tmpl)
		desc := fmt.Sprintf("case=%d;template=%s identifier=%s class=%s/%s", idx, c20Q(tmpl), c20Q(ident), class, tclass)
		got, err, pv, panicked := c20Call(tmpl, ident)
		counts[class+"/"+tclass]++
		if panicked {
			m.Violate("C20:panic:"+class+"-template:"+tclass, desc, "FileNamingFormat panicked: %v", pv)
			continue
		}
		if class == "valid" {
			want, _ := c20Ref(tmpl, ident, gos[0], des[0])
			switch {
			case err != nil:
				m.Violate("C20:valid-template-rejected:"+tclass, desc, "error %v, want %s", err, c20Q(want))
			case got != want:
				m.Violate("C20:wrong-file-name:"+tclass, desc, "got %s, want %s", c20Q(got), c20Q(want))
			}
			m.Case(vk.Digest(tmpl, "\x00", ident), len(c20Words(ident)) >= 2)
		} else {
			if err == nil {
				m.Violate("C20:invalid-template-accepted:"+class+":"+tclass, desc, "accepted with result %s", c20Q(got))
			}
			m.Case(vk.Digest(tmpl, "\x00", ident), true)
		}
		if m.WantSample() && idx%29989 == 1 {
			m.Sample(map[string]any{"template": tmpl, "identifier": ident, "class": class + "/" + tclass, "result": got, "error": fmt.Sprint(err)})
		}
		if idx%50000 == 0 {
			m.Progress()
		}
	}
	for k, v := range counts {
		m.Count("templates_"+k, v)
	}
}

// arbitrary byte strings: never a panic, same answer again / from another goroutine
func c20Arbitrary(r *rand.Rand) string {
	n := r.Intn(14)
	b := make([]byte, 0, n+8)
	for i := 0; i < n; i++ {
		switch r.Intn(8) {
		case 0:
			b = append(b, byte(r.Intn(256)))
		case 1:
			b = append(b, "go"[r.Intn(2)]-byte(32*r.Intn(2)))
		case 2:
			w := []string{"go", "GO", "Go", "designer", "DESIGNER", "Designer", "deſigner", "ɐ", "ı", "İ"}[r.Intn(10)]
			b = append(b, w...)
		default:
			b = append(b, byte(32+r.Intn(95)))
		}
	}
	return string(b)
}

func c20DigestRun(seed int64, n int) (string, int, string) {
	r := rand.New(rand.NewSource(seed))
	h := sha256.New()
	panics := 0
	first := ""
	for i := 0; i < n; i++ {
		tmpl, ident := c20Arbitrary(r), c20Arbitrary(r)
		if i%3 == 0 {
			tmpl = c20Filler(r) + c20WordCase(r, "go", true) + c20Filler(r) + c20WordCase(r, "designer", true) + c20Filler(r)
		}
		res, err, pv, panicked := c20Call(tmpl, ident)
		if panicked {
			panics++
			if first == "" {
				first = fmt.Sprintf("template=%q identifier=%q panic=%v", tmpl, ident, pv)
			}
			fmt.Fprintf(h, "P|")
			continue
		}
		fmt.Fprintf(h, "%q|%v|", res, err != nil)
	}
	return hex.EncodeToString(h.Sum(nil)), panics, first
}

func TestVerifC20Determinism(t *testing.T) {
	m := vk.New(t, "C20", "arbitrary byte strings for template and identifier (plus valid templates with hostile fillers): no panic; identical digest of all results when recomputed, from 8 goroutines concurrently, and from a child process started with LANG=tr_TR.UTF-8 LC_ALL=tr_TR.UTF-8 TZ=Asia/Tokyo in another working directory")
	defer m.Done()
	n := vk.N(60000, 1500000)
	seed := vk.Seed()*7919 + 13
	base, panics, first := c20DigestRun(seed, n)
	m.Count("calls", int64(n))
	if panics > 0 {
		m.Violate("C20:panic:arbitrary-input", "case=0;seed="+fmt.Sprint(seed), "%d of %d calls panicked; first: %s", panics, n, first)
	}
	again, _, _ := c20DigestRun(seed, n)
	if again != base {
		m.Violate("C20:nondeterministic:repeat", "case=0;seed="+fmt.Sprint(seed), "digest %s then %s", base, again)
	}
	var wg sync.WaitGroup
	ds := make([]string, 8)
	for g := range ds {
		wg.Add(1)
		go func(g int) {
			defer wg.Done()
			ds[g], _, _ = c20DigestRun(seed, n)
		}(g)
	}
	wg.Wait()
	for g, d := range ds {
		if d != base {
			m.Violate("C20:nondeterministic:goroutine", "case=0;seed="+fmt.Sprint(seed), "goroutine %d digest %s, base %s", g, d, base)
		}
	}
	// second process, different environment
	cmd := exec.Command(os.Args[0], "-test.run=^TestVerifC20Child$", "-test.count=1")
	cmd.Dir = os.TempDir()
	cmd.Env = []string{"LANG=tr_TR.UTF-8", "LC_ALL=tr_TR.UTF-8", "TZ=Asia/Tokyo", "C20_CHILD_SEED=" + fmt.Sprint(seed), "C20_CHILD_N=" + fmt.Sprint(n), "PATH=" + os.Getenv("PATH"), "HOME=" + os.TempDir()}
	out, err := cmd.CombinedOutput()
	child := ""
	for _, line := range strings.Split(string(out), "\n") {
		if strings.HasPrefix(line, "C20DIGEST ") {
			child = strings.TrimSpace(strings.TrimPrefix(line, "C20DIGEST "))
		}
	}
	switch {
	case child == "":
		m.Inconclusive("child process produced no digest (err %v): %s", err, string(out))
	case child != base:
		m.Violate("C20:nondeterministic:environment", "case=0;seed="+fmt.Sprint(seed), "child process digest %s, parent %s", child, base)
	default:
		m.Count("child_process_digest_equal", 1)
	}
	m.Case("digest-"+base, true)
	m.Case("digest-rerun-goroutines-child", true)
	m.Sample(map[string]any{"calls": n, "digest": base, "child_digest": child, "panics": panics})
}

func TestVerifC20Child(t *testing.T) {
	s := os.Getenv("C20_CHILD_SEED")
	if s == "" {
		t.Skip("child helper")
	}
	var seed int64
	var n int
	fmt.Sscan(s, &seed)
	fmt.Sscan(os.Getenv("C20_CHILD_N"), &n)
	d, _, _ := c20DigestRun(seed, n)
	fmt.Println("C20DIGEST " + d)
}
