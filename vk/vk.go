// Package vk is the small helper library shared by every runtime monitor in
// /verif/harness: seeded PRNG, violation/evidence recording, watchdogs,
// goroutine scanning. Stdlib only. All state is guarded by one mutex so the
// monitor never becomes the race.
package vk

import (
	"crypto/sha256"
	"encoding/hex"
	"encoding/json"
	"fmt"
	"math/rand"
	"os"
	"path/filepath"
	"runtime"
	"sort"
	"strconv"
	"strings"
	"sync"
	"sync/atomic"
	"time"
)

// Violation is one observed refutation of a property.
type Violation struct {
	Sig    string `json:"sig"`    // stable signature of the violation class
	Detail string `json:"detail"` // human-readable witness
	Case   string `json:"case"`   // scenario (replayable description)
	Seed   int64  `json:"seed"`
	Test   string `json:"test"`
}

// Report is what one test process writes for the driver.
type Report struct {
	Property     string           `json:"property"`
	Test         string           `json:"test"`
	Seed         int64            `json:"seed"`
	Tier         string           `json:"tier"`
	Evaluations  int64            `json:"evaluations"`
	Distinct     int64            `json:"distinct_nontrivial"`
	Rule         string           `json:"rule"`
	Samples      []any            `json:"samples"`
	Counters     map[string]int64 `json:"counters"`
	Violations   []Violation      `json:"violations"`
	ViolTotal    int64            `json:"violations_total"`
	Inconclusive []string         `json:"inconclusive"`
	Notes        []string         `json:"notes"`
	Skipped      []string         `json:"skipped_suboracles"`
	Done         bool             `json:"done"`
	Extra        map[string]any   `json:"extra,omitempty"`
}

// M is a monitor context for one test function.
type M struct {
	mu       sync.Mutex
	rep      Report
	digests  map[string]struct{}
	sigCount map[string]int
	out      string
	maxSamp  int
	only     int64 // replay: only this case index (-1 = all)
}

// TB is the subset of testing.TB we need (avoids importing testing here).
type TB interface {
	Name() string
	Logf(string, ...any)
	Fatalf(string, ...any)
}

// Seed returns VERIF_SEED (default 1).
func Seed() int64 {
	if s := os.Getenv("VERIF_SEED"); s != "" {
		if v, err := strconv.ParseInt(s, 10, 64); err == nil {
			return v
		}
	}
	return 1
}

// Tier returns "quick" or "thorough".
func Tier() string {
	if os.Getenv("VERIF_TIER") == "thorough" {
		return "thorough"
	}
	return "quick"
}

// Thorough reports whether the thorough tier is active.
func Thorough() bool { return Tier() == "thorough" }

// N picks a case count by tier.
func N(quick, thorough int) int {
	if Thorough() {
		return thorough
	}
	return quick
}

// New creates a monitor context. property is e.g. "C10".
func New(t TB, property, rule string) *M {
	m := &M{digests: map[string]struct{}{}, sigCount: map[string]int{}, maxSamp: 5, only: -1}
	m.rep.Property = property
	m.rep.Test = t.Name()
	m.rep.Seed = Seed()
	m.rep.Tier = Tier()
	m.rep.Rule = rule
	m.rep.Counters = map[string]int64{}
	if s := os.Getenv("VK_ONLY_CASE"); s != "" {
		if v, err := strconv.ParseInt(s, 10, 64); err == nil {
			m.only = v
		}
	}
	if dir := os.Getenv("VK_OUT"); dir != "" {
		_ = os.MkdirAll(dir, 0o755)
		name := strings.NewReplacer("/", "_", " ", "_").Replace(t.Name())
		m.out = filepath.Join(dir, fmt.Sprintf("%s.%s.%d.json", property, name, os.Getpid()))
	}
	m.flush(false)
	return m
}

// Rand returns a PRNG derived from VERIF_SEED, the test name and the salt.
func (m *M) Rand(salt ...any) *rand.Rand {
	h := sha256.Sum256([]byte(fmt.Sprint(m.rep.Seed, "|", m.rep.Test, "|", fmt.Sprint(salt...))))
	var s int64
	for i := 0; i < 8; i++ {
		s = s<<8 | int64(h[i])
	}
	return rand.New(rand.NewSource(s))
}

// Only reports whether case idx should run (replay filter).
func (m *M) Only(idx int) bool { return m.only < 0 || m.only == int64(idx) }

// Case records one executed case. digest identifies the case (or the observed
// behaviour class); nontrivial says whether it exercised the property's subject.
func (m *M) Case(digest string, nontrivial bool) {
	m.mu.Lock()
	m.rep.Evaluations++
	if nontrivial {
		if len(digest) > 40 {
			h := sha256.Sum256([]byte(digest))
			digest = hex.EncodeToString(h[:12])
		}
		if _, ok := m.digests[digest]; !ok {
			m.digests[digest] = struct{}{}
			m.rep.Distinct++
		}
	}
	m.mu.Unlock()
}

// Count adds to a named counter (events observed per kind).
func (m *M) Count(name string, n int64) {
	m.mu.Lock()
	m.rep.Counters[name] += n
	m.mu.Unlock()
}

// Max keeps the maximum of a named gauge.
func (m *M) Max(name string, v int64) {
	m.mu.Lock()
	if v > m.rep.Counters[name] {
		m.rep.Counters[name] = v
	}
	m.mu.Unlock()
}

// Sample keeps up to 5 concrete cases for the evidence file.
func (m *M) Sample(v any) {
	m.mu.Lock()
	if len(m.rep.Samples) < m.maxSamp {
		m.rep.Samples = append(m.rep.Samples, v)
	}
	m.mu.Unlock()
}

// WantSample reports whether more samples are wanted.
func (m *M) WantSample() bool {
	m.mu.Lock()
	defer m.mu.Unlock()
	return len(m.rep.Samples) < m.maxSamp
}

// Note adds a free-text note to the evidence.
func (m *M) Note(format string, a ...any) {
	m.mu.Lock()
	if len(m.rep.Notes) < 50 {
		m.rep.Notes = append(m.rep.Notes, fmt.Sprintf(format, a...))
	}
	m.mu.Unlock()
}

// Skip records a sub-oracle that could not run (missing seam in a modified tree).
func (m *M) Skip(what string) {
	m.mu.Lock()
	m.rep.Skipped = append(m.rep.Skipped, what)
	m.mu.Unlock()
}

// Extra stores an arbitrary evidence value.
func (m *M) Extra(k string, v any) {
	m.mu.Lock()
	if m.rep.Extra == nil {
		m.rep.Extra = map[string]any{}
	}
	m.rep.Extra[k] = v
	m.mu.Unlock()
}

// Violate records a violation. At most 3 witnesses are kept per signature.
func (m *M) Violate(sig, scenario, format string, a ...any) {
	m.mu.Lock()
	m.rep.ViolTotal++
	m.sigCount[sig]++
	if m.sigCount[sig] <= 3 && len(m.rep.Violations) < 200 {
		d := fmt.Sprintf(format, a...)
		if len(d) > 4000 {
			d = d[:4000] + "…"
		}
		if len(scenario) > 8000 {
			scenario = scenario[:8000] + "…"
		}
		m.rep.Violations = append(m.rep.Violations, Violation{Sig: sig, Detail: d, Case: scenario, Seed: m.rep.Seed, Test: m.rep.Test})
	}
	m.mu.Unlock()
	m.flush(false)
}

// ViolCount returns total violations recorded so far.
func (m *M) ViolCount() int64 {
	m.mu.Lock()
	defer m.mu.Unlock()
	return m.rep.ViolTotal
}

// Inconclusive records an inconclusive observation (watchdog, checker timeout).
func (m *M) Inconclusive(format string, a ...any) {
	m.mu.Lock()
	if len(m.rep.Inconclusive) < 50 {
		m.rep.Inconclusive = append(m.rep.Inconclusive, fmt.Sprintf(format, a...))
	}
	m.mu.Unlock()
	m.flush(false)
}

// Progress flushes the current report (call every few hundred cases so that a
// fatal crash still leaves the last state on disk).
func (m *M) Progress() { m.flush(false) }

// Done flushes the final report.
func (m *M) Done() { m.flush(true) }

func (m *M) flush(done bool) {
	if m.out == "" {
		return
	}
	m.mu.Lock()
	m.rep.Done = done
	keys := make([]string, 0, len(m.sigCount))
	for k := range m.sigCount {
		keys = append(keys, k)
	}
	sort.Strings(keys)
	if m.rep.Extra == nil {
		m.rep.Extra = map[string]any{}
	}
	sc := map[string]int{}
	for _, k := range keys {
		sc[k] = m.sigCount[k]
	}
	m.rep.Extra["violations_by_signature"] = sc
	b, err := json.MarshalIndent(&m.rep, "", " ")
	if err != nil {
		// a sample / extra value that JSON cannot carry (NaN, Inf, func): drop those, keep the verdict data
		cp := m.rep
		cp.Samples = []any{fmt.Sprintf("samples dropped: %v", err)}
		cp.Extra = map[string]any{"marshal_error": err.Error()}
		cp.Inconclusive = append(append([]string{}, cp.Inconclusive...), "report could not be marshalled completely: "+err.Error())
		b, err = json.MarshalIndent(&cp, "", " ")
	}
	m.mu.Unlock()
	if err != nil {
		b = []byte(fmt.Sprintf(`{"property":%q,"test":%q,"done":false,"inconclusive":[%q]}`, m.rep.Property, m.rep.Test, "marshal error: "+err.Error()))
	}
	tmp := m.out + ".tmp"
	if os.WriteFile(tmp, b, 0o644) == nil {
		_ = os.Rename(tmp, m.out)
	}
}

// Current writes the case about to run to $VK_OUT/current.<pid> so that a fatal
// process death can be attributed.
func (m *M) Current(desc string) {
	if m.out == "" {
		return
	}
	_ = os.WriteFile(m.out+".current", []byte(desc), 0o644)
}

// ---------------------------------------------------------------------------

var seq int64

// Seq returns the next value of one process-wide atomic sequence.
func Seq() int64 { return atomic.AddInt64(&seq, 1) }

// Digest hashes anything printable to a short hex string.
func Digest(a ...any) string {
	h := sha256.Sum256([]byte(fmt.Sprint(a...)))
	return hex.EncodeToString(h[:8])
}

// JSON renders v compactly (for scenario descriptions).
func JSON(v any) string {
	b, err := json.Marshal(v)
	if err != nil {
		return fmt.Sprintf("%+v", v)
	}
	return string(b)
}

// WaitUntil polls cond until true or the watchdog d expires. Returns whether
// cond became true. The watchdog is generous wall-clock; its firing is for the
// caller to classify (usually inconclusive).
func WaitUntil(d time.Duration, cond func() bool) bool {
	deadline := time.Now().Add(d)
	for i := 0; ; i++ {
		if cond() {
			return true
		}
		if time.Now().After(deadline) {
			return cond()
		}
		if i < 50 {
			runtime.Gosched()
		} else if i < 200 {
			time.Sleep(20 * time.Microsecond)
		} else {
			time.Sleep(time.Millisecond)
		}
	}
}

// Within runs f in a goroutine and waits at most d. ok=false means f did not
// return in time (f keeps running).
func Within(d time.Duration, f func()) (ok bool) {
	done := make(chan struct{})
	go func() {
		defer close(done)
		f()
	}()
	t := time.NewTimer(d)
	defer t.Stop()
	select {
	case <-done:
		return true
	case <-t.C:
		return false
	}
}

// Stacks returns the dump of all goroutines.
func Stacks() string {
	buf := make([]byte, 1<<20)
	for {
		n := runtime.Stack(buf, true)
		if n < len(buf) {
			return string(buf[:n])
		}
		buf = make([]byte, 2*len(buf))
	}
}

// GoroutinesIn returns the goroutine blocks of the current dump whose stack
// contains the substring frame (e.g. "github.com/gotid/god/lib/mr."), skipping
// the calling goroutine.
func GoroutinesIn(frame string, exclude ...string) []string {
	var out []string
	blocks := strings.Split(Stacks(), "\n\n")
	for i, b := range blocks {
		if i == 0 { // the caller
			continue
		}
		if !strings.Contains(b, frame) {
			continue
		}
		skip := false
		for _, e := range exclude {
			if strings.Contains(b, e) {
				skip = true
			}
		}
		if !skip {
			out = append(out, b)
		}
	}
	return out
}

// Recover runs f and returns the recovered panic value (nil if none) and
// whether it panicked.
func Recover(f func()) (val any, panicked bool) {
	defer func() {
		if r := recover(); r != nil {
			val, panicked = r, true
		}
	}()
	f()
	return nil, false
}
