module verif.local/vk

go 1.19
