"""Registry of monitor runs per property (read by ./check).

Each run: pkg (relative to module root), run (go test -run regex), race (bool),
timeout / timeout_thorough (s), module ("root" | "toolsgod"), env, hang_is_violation.
"""

PROPS = {}

PROPS["C10"] = dict(
    level="exploration",
    assumptions=[
        "delays >= one interval (shorter delays are outside the statement)",
        "Drain is followed only by ticks and Stop",
        "operations after Stop are issued once the wheel's run loop has observed the stop",
        "race detector run is part of C17 (the wheel has a single owner goroutine; callers only use channels)",
    ],
    runs=[
        dict(pkg="./lib/collection", run="^TestVerifC10", timeout=240, timeout_thorough=3000),
    ],
)
