"""Registry of monitor runs per property (read by ./check).

Each run: pkg (relative to module root), run (go test -run regex), race (bool),
timeout / timeout_thorough (s), module ("root" | "toolsgod"), env, hang_is_violation.
"""

PROPS = {}
