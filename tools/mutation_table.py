#!/usr/bin/env python3
"""Regenerate the mutation-analysis table of DESIGN.md (between <!-- MUT-BEGIN --> and <!-- MUT-END -->)."""
import glob, json, os, re
V = "/verif"
rows = []
tot = {}
for p in sorted(glob.glob(V + "/mutation/C*.jsonl")):
    pid = os.path.basename(p)[:-6]
    st = {}
    for l in open(p):
        r = json.loads(l)
        s = r["status"]
        s = "inconclusive" if s.startswith("other") else s
        st[s] = st.get(s, 0) + 1
        tot[s] = tot.get(s, 0) + 1
    tri = os.path.exists(V + "/mutation/%s.triage.md" % pid)
    rows.append("| %s | %d | %d | %d | %d | %d | %d | %s |" % (
        pid, sum(st.values()), st.get("does-not-compile", 0), st.get("killed-by-existing-tests", 0),
        st.get("killed-by-monitor", 0), st.get("SURVIVED", 0), st.get("inconclusive", 0),
        "`mutation/%s.triage.md`" % pid if tri else "§8.7 text"))
hdr = "| property | mutants | no compile | killed by existing tests | killed by monitor | survived (first run) | inconclusive | triage |\n|---|---|---|---|---|---|---|---|\n"
body = hdr + "\n".join(rows) + "\n| **all** | %d | %d | %d | %d | %d | %d | |\n" % (
    sum(tot.values()), tot.get("does-not-compile", 0), tot.get("killed-by-existing-tests", 0),
    tot.get("killed-by-monitor", 0), tot.get("SURVIVED", 0), tot.get("inconclusive", 0))
d = open(V + "/DESIGN.md").read()
d = re.sub(r"(<!-- MUT-BEGIN -->\n).*?(<!-- MUT-END -->)", lambda m: m.group(1) + body + m.group(2), d, flags=re.S)
open(V + "/DESIGN.md", "w").write(d)
print(body)
