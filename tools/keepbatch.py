#!/usr/bin/env python3
"""keepbatch.py PID SRC SUFFIX RESULTFILE — store every seed of a seedbatch run whose check line says VIOLATED; uses notes for texts.
Missed ones are listed, not stored."""
import os, re, sys, json, shutil
pid, src, suffix, resf = sys.argv[1:5]
txt = open(resf).read()
blocks = re.split(r"^== ", txt, flags=re.M)[1:]
for b in blocks:
    m = re.match(r"(\S+) seed (\w+) \(demo_dir=(\S*) tags=(\S+)\)", b)
    if not m: continue
    n, demo_dir, tags = m.group(2), m.group(3), m.group(4)
    ok = all(x in b for x in ("1. demo on HEAD: rc=0 PASS", "FAILS (as wanted)", "2b. existing tests with patch")) and "rc=0 PASS" in b.split("2b.")[1].split("\n")[0]
    det = re.search(r"3\. check: rc=1 .*VIOLATED", b)
    sigs = re.search(r"sigs=\[(.*)", b)
    sigl = [s.strip("' ") for s in sigs.group(1).split(",")][:3] if sigs and sigs.group(1) else []
    notes = open(os.path.join(src, "notes_%s.md" % n)).read()
    body = [l for l in notes.splitlines() if l.strip() and not re.match(r"`?(demo_dir|demo_tags|test_pkgs)", l.strip())]
    breaks = re.sub(r"[#*`]", "", " ".join(body[:3]))[:300]
    if not ok:
        print("NOT-VERIFIED", pid, n); continue
    if not det:
        print("MISSED", pid, n, breaks[:120]); continue
    d = "/verif/seeded/%s-%s%s" % (pid, suffix, n)
    os.makedirs(d, exist_ok=True)
    shutil.copy(os.path.join(src, "patch_%s.diff" % n), d + "/patch.diff")
    shutil.copy(os.path.join(src, "demo_%s_test.go" % n), d + "/demo_test.go")
    shutil.copy(os.path.join(src, "notes_%s.md" % n), d + "/notes.md")
    json.dump({"property": pid, "breaks": breaks, "needs_to_manifest": "see notes.md", "demo_dir": demo_dir, "demo_tags": "" if tags == "none" else tags,
               "verified": "tools/seedeval.py: demo passes on HEAD and fails with the patch; the listed existing package tests pass with the patch; ./check %s (quick, VERIF_REPO=patched worktree)" % pid,
               "status": "detected by the quick tier", "detected_by_quick_signatures": sigl,
               "origin": "independent sub-agent (round %s) given only the property text, the list of earlier seeded changes to avoid, and a scratch worktree" % (re.sub(r"\D", "", suffix) or "2")}, open(d + "/meta.json", "w"), indent=1, ensure_ascii=False)
    print("kept", d, sigl[:2])
