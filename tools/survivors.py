#!/usr/bin/env python3
"""tools/survivors.py PID  - print the surviving mutants of mutation/PID.jsonl (for triage)."""
import json, sys
pid = sys.argv[1]
n = 0
for l in open('/verif/mutation/%s.jsonl' % pid):
    r = json.loads(l)
    if r['status'] == 'SURVIVED' or r['status'].startswith('other'):
        n += 1
        print("%2d. [%s] %s:%d (%s)\n      - %s\n      + %s" % (n, r['status'], r['file'], r['line'], r['kind'], r['old'], r['new']))
