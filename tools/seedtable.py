#!/usr/bin/env python3
"""Print the markdown table of seeded changes (seeded/*/meta.json) for DESIGN.md §8.6."""
import glob, json, os
rows = []
for d in sorted(glob.glob('/verif/seeded/*/meta.json')):
    m = json.load(open(d))
    name = os.path.basename(os.path.dirname(d))
    sigs = ", ".join("`%s`" % s for s in m.get("detected_by_quick_signatures", [])[:2])
    rows.append("| %s | %s | %s | %s | %s |" % (name, m["breaks"], m["needs_to_manifest"], sigs, m.get("status", "detected by the quick tier")))
print("| seed | change | needs | detecting signatures (quick) | status |\n|---|---|---|---|---|")
print("\n".join(rows))
