#!/usr/bin/env python3
"""anchorcover.py PID — run ./check PID with VERIF_COVER=1 VERIF_KEEP=1 and print, for every file anchored by the
property (properties.jsonl anchors.files), the statement coverage reached by the monitor's workload, plus the
uncovered line ranges. Diagnostic for thin spots; not part of any verdict."""
import glob, json, os, re, subprocess, sys
pid = sys.argv[1]
prop = [json.loads(l) for l in open('/verif/properties.jsonl') if json.loads(l)['id'] == pid][0]
anchors = prop['anchors']['files']
pkgs = sorted({"./" + os.path.dirname(a[len("tools/god/"):] if a.startswith("tools/god/") else a) for a in anchors})
env = dict(os.environ, VERIF_COVER="1", VERIF_KEEP="1", VERIF_COVERPKG=",".join(pkgs))
out = subprocess.run(["./check", pid], cwd="/verif", env=env, stdout=subprocess.PIPE, stderr=subprocess.STDOUT, text=True).stdout
print(out.strip().split("\n")[-1])
blocks = {}
for prof in glob.glob('/verif/.build/run/%s.*/r*/mod/cover.out' % pid):
    for line in open(prof):
        m = re.match(r"(\S+):(\d+)\.(\d+),(\d+)\.(\d+) (\d+) (\d+)", line)
        if not m: continue
        f = m.group(1)
        key = (f, int(m.group(2)), int(m.group(4)), int(m.group(6)))
        blocks[key] = blocks.get(key, 0) + int(m.group(7))
for a in anchors:
    tot = cov = 0; unc = []
    for (f, l0, l1, n), c in sorted(blocks.items()):
        if f.endswith("/" + a) or f.endswith(a):
            tot += n
            if c > 0: cov += n
            else: unc.append((l0, l1))
    if tot == 0:
        print("%-60s not in any profile" % a); continue
    rng = []
    for l0, l1 in unc:
        if rng and l0 <= rng[-1][1] + 1: rng[-1] = (rng[-1][0], max(rng[-1][1], l1))
        else: rng.append((l0, l1))
    print("%-60s %5.1f%% of %4d stmts; uncovered lines: %s" % (a, 100.0 * cov / tot, tot, " ".join("%d-%d" % r for r in rng[:25])))
subprocess.call("rm -rf /verif/.build/run/%s.*" % pid, shell=True)
