#!/usr/bin/env python3
"""Apply one textual mutation (or a patch file) to a scratch worktree of /repo, run ./check <PID>
against it (VERIF_REPO), print verdict + signatures, remove the worktree.
usage: killtest.py PID NAME FILE OLD NEW [--tier quick] | killtest.py PID NAME --patch file.diff [--revert]"""
import os, subprocess, sys, shutil, re
pid, name = sys.argv[1], sys.argv[2]
wt = "/tmp/wt-kill-%s-%s" % (pid, re.sub(r"\W", "_", name))
subprocess.call(["git", "-C", "/repo", "worktree", "remove", "--force", wt], stderr=subprocess.DEVNULL)
subprocess.check_call(["git", "-C", "/repo", "worktree", "add", "-q", "--detach", wt, "HEAD"])
shutil.copy("/repo/go.sum", wt)
try:
    if sys.argv[3] == "--patch":
        args = ["git", "-C", wt, "apply"]
        if "--revert" in sys.argv:
            args.append("-R")
        subprocess.check_call(args + [sys.argv[4]])
    else:
        f, old, new = sys.argv[3], sys.argv[4], sys.argv[5]
        p = os.path.join(wt, f)
        s = open(p).read()
        if s.count(old) != 1:
            print("MUTATION-SITE count=%d (need 1)" % s.count(old)); sys.exit(2)
        open(p, "w").write(s.replace(old, new))
        e = dict(os.environ, GOFLAGS="-mod=mod", GOPROXY="off", GOSUMDB="off", GOTOOLCHAIN="local")
    env = dict(os.environ, VERIF_REPO=wt)
    tier = "quick"
    if "--tier" in sys.argv:
        tier = sys.argv[sys.argv.index("--tier") + 1]
    out = subprocess.run(["./check", pid, "--tier", tier], cwd="/verif", env=env, stdout=subprocess.PIPE, stderr=subprocess.STDOUT, text=True).stdout
    sigs = sorted(set(re.findall(r"signature: (\S+)", out)))
    last = out.strip().split("\n")[-1]
    print("%-40s %s\n    sigs=%s" % (name, last[:160], sigs[:8]))
    if "BUILD" in last or "HARNESS-BUILD-FAILED" in out:
        print(out[-1500:])
finally:
    subprocess.call(["git", "-C", "/repo", "worktree", "remove", "--force", wt])
    subprocess.call(["git", "-C", "/repo", "worktree", "prune"])
    import hashlib
    shutil.rmtree(os.path.join("/verif/.build", "alt-" + hashlib.sha1(wt.encode()).hexdigest()[:10]), ignore_errors=True)
