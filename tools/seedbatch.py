#!/usr/bin/env python3
"""seedbatch.py PID SRC_DIR — evaluate every patch_N.diff in SRC_DIR using the header lines of notes_N.md
(demo_dir / demo_tags / test_pkgs)."""
import glob, os, re, subprocess, sys
pid, src = sys.argv[1], sys.argv[2]
for patch in sorted(glob.glob(os.path.join(src, "patch_*.diff"))):
    n = re.search(r"patch_(\w+)\.diff", patch).group(1)
    notes = open(os.path.join(src, "notes_%s.md" % n)).read() if os.path.exists(os.path.join(src, "notes_%s.md" % n)) else ""
    def field(k, default=""):
        m = re.search(r"%s:\s*`?([^`\n]+)`?" % k, notes)
        return m.group(1).strip() if m else default
    demo_dir = field("demo_dir").split()[0] if field("demo_dir") else ""
    tags = field("demo_tags", "none").split()[0]
    pkgs = field("test_pkgs", "./" + demo_dir + "/...")
    pkgs = " ".join(p.rstrip(")`;") for p in re.split(r"[\s,()]+", pkgs) if p.startswith("./") and p.rstrip(")`;") != "./...")
    if demo_dir.startswith("tools/god"):
        pkgs = "./util/format/ ./util/stringx/ ./config/"
    cmd = ["/verif/tools/seedeval.py", pid, patch, os.path.join(src, "demo_%s_test.go" % n), demo_dir, pkgs]
    if tags == "verif":
        cmd += ["--tags", "verif"]
    print("== %s seed %s (demo_dir=%s tags=%s)" % (pid, n, demo_dir, tags)); sys.stdout.flush()
    out = subprocess.run(cmd, stdout=subprocess.PIPE, stderr=subprocess.STDOUT, text=True).stdout
    print("\n".join(l[:330] for l in out.splitlines()))
