#!/usr/bin/env python3
"""keepseed.py PID N SRC_DIR DEMO_DIR BREAKS NEEDS SIGS(comma) [TAGS] [STATUS] — store a verified seeded change under /verif/seeded/PID-N/"""
import json, os, shutil, sys
pid, n, src, demo_dir, breaks, needs, sigs = sys.argv[1:8]
tags = sys.argv[8] if len(sys.argv) > 8 else ""
status = sys.argv[9] if len(sys.argv) > 9 else "detected by the quick tier"
d = '/verif/seeded/%s-%s' % (pid, n)
os.makedirs(d, exist_ok=True)
shutil.copy('%s/patch_%s.diff' % (src, n), d + '/patch.diff')
shutil.copy('%s/demo_%s_test.go' % (src, n), d + '/demo_test.go')
if os.path.exists('%s/notes_%s.md' % (src, n)):
    shutil.copy('%s/notes_%s.md' % (src, n), d + '/notes.md')
json.dump({"property": pid, "breaks": breaks, "needs_to_manifest": needs, "demo_dir": demo_dir, "demo_tags": tags,
           "verified": "tools/seedeval.py: demo passes on HEAD and fails with the patch; the listed existing package tests pass with the patch; ./check %s (quick, VERIF_REPO=patched worktree)" % pid,
           "status": status, "detected_by_quick_signatures": [s for s in sigs.split(',') if s],
           "origin": "independent sub-agent given only the property text and a scratch worktree"}, open(d + '/meta.json', 'w'), indent=1, ensure_ascii=False)
print("kept", d)
