#!/usr/bin/env python3
"""Evaluate a seeded change: seedeval.py PID PATCH DEMO_FILE DEMO_DIR "PKG1 PKG2 ..." [--tier quick]
 1. demo passes on HEAD   2. with patch: builds, listed packages' existing tests pass, demo fails
 3. ./check PID against the patched worktree (VERIF_REPO)."""
import os, re, shutil, subprocess, sys, hashlib
pid, patch, demo, demodir, pkgs = sys.argv[1:6]
tier = sys.argv[sys.argv.index("--tier") + 1] if "--tier" in sys.argv else "quick"
module_sub = "tools/god" if demodir.startswith("tools/god") or pkgs.startswith("tools/god") else ""
wt = "/tmp/wt-seedeval-%s-%s" % (pid, hashlib.sha1(patch.encode()).hexdigest()[:6])
env = dict(os.environ, GOFLAGS="-mod=mod", GOPROXY="off", GOSUMDB="off", GOTOOLCHAIN="local", GOWORK="off")
def sh(cmd, cwd=wt, e=env, timeout=1500):
    p = subprocess.run(cmd, shell=True, cwd=cwd, env=e, stdout=subprocess.PIPE, stderr=subprocess.STDOUT, text=True, errors="replace", timeout=timeout)
    return p.returncode, p.stdout
subprocess.call(["git", "-C", "/repo", "worktree", "remove", "--force", wt], stderr=subprocess.DEVNULL)
subprocess.check_call(["git", "-C", "/repo", "worktree", "add", "-q", "--detach", wt, "HEAD"])
shutil.copy("/repo/go.sum", wt)
try:
    modfile = wt + ".mod"
    if module_sub:
        shutil.copy("/verif/.build/toolsgod.mod", modfile); shutil.copy("/verif/.build/toolsgod.sum", wt + ".sum")
        cwd = os.path.join(wt, module_sub)
        demodir_rel = os.path.relpath(demodir, module_sub)
    else:
        shutil.copy(os.path.join(wt, "go.mod"), modfile); shutil.copy(os.path.join(wt, "go.sum"), wt + ".sum")
        cwd = wt; demodir_rel = demodir
    dst = os.path.join(wt, demodir, "seed_demo_x_test.go")
    shutil.copy(demo, dst)
    names = re.findall(r"^func (Test\w+)\(", open(demo).read(), re.M)
    runre = "^(%s)$" % "|".join(names)
    tags = ("-tags " + sys.argv[sys.argv.index("--tags") + 1] + " ") if "--tags" in sys.argv else ""
    gt = "go test %s-modfile=%s -vet=off -count=1 -timeout 600s" % (tags, modfile)
    rc0, out0 = sh("%s -run '%s' ./%s" % (gt, runre, demodir_rel), cwd)
    print("1. demo on HEAD: rc=%d %s" % (rc0, "PASS" if rc0 == 0 else "FAIL\n" + out0[-1500:]))
    rc, out = sh("git apply %s" % patch)
    if rc: print("patch does not apply:\n" + out); sys.exit(2)
    rc1, out1 = sh("%s -run '%s' ./%s" % (gt, runre, demodir_rel), cwd)
    print("2a. demo with patch: rc=%d %s" % (rc1, "FAILS (as wanted)" if rc1 != 0 else "PASSES (demo does not show the break!)"))
    os.remove(dst)
    rc2, out2 = sh("%s %s" % (gt.replace(tags, ""), pkgs), cwd)
    fails = re.findall(r"^(--- FAIL.*|FAIL\s+\S+.*)$", out2, re.M)
    print("2b. existing tests with patch (%s): rc=%d %s" % (pkgs, rc2, "PASS" if rc2 == 0 else "FAIL %s" % fails[:6]))
    e2 = dict(os.environ, VERIF_REPO=wt)
    rc3, out3 = sh("./check %s --tier %s" % (pid, tier), "/verif", e2, 4000)
    sigs = sorted(set(re.findall(r"signature: (\S+)", out3)))
    print("3. check: rc=%d %s\n   sigs=%s" % (rc3, out3.strip().split("\n")[-1][:170], sigs[:10]))
    if "BUILD" in out3.strip().split("\n")[-1]:
        print(out3[-1500:])
finally:
    subprocess.call(["git", "-C", "/repo", "worktree", "remove", "--force", wt])
    subprocess.call(["git", "-C", "/repo", "worktree", "prune"])
    for f in (wt + ".mod", wt + ".sum"):
        if os.path.exists(f): os.remove(f)
    shutil.rmtree(os.path.join("/verif/.build", "alt-" + hashlib.sha1(wt.encode()).hexdigest()[:10]), ignore_errors=True)
