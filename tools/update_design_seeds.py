#!/usr/bin/env python3
"""Regenerate DESIGN.md §8.6 (between the markers) from seeded/*/meta.json."""
import subprocess, re
tbl = subprocess.run(["/verif/tools/seedtable.py"], stdout=subprocess.PIPE, text=True).stdout
p = '/verif/DESIGN.md'
s = open(p).read()
begin, end = "<!-- SEEDS-BEGIN -->", "<!-- SEEDS-END -->"
block = begin + "\n" + tbl + end
if begin in s:
    s = re.sub(re.escape(begin) + r".*?" + re.escape(end), lambda m: block, s, flags=re.S)
else:
    s = s.rstrip("\n") + "\n\n" + block + "\n"
open(p, 'w').write(s)
print("rows:", tbl.count("\n") - 2)
