#!/bin/bash
# regress_seeds.sh <seeded-dir-name>...  — re-apply stored seeded patches on scratch worktrees and run the quick check of
# the property that is recorded as detecting them; prints one line per seed. Scratch copies are removed afterwards.
export GOFLAGS=-mod=mod GOPROXY=off GOSUMDB=off GOTOOLCHAIN=local
for name in "$@"; do
  d=/verif/seeded/$name
  pid=$(python3 -c "import json;print(json.load(open('$d/meta.json'))['property'])")
  wt=/tmp/wt-regress-$name
  git -C /repo worktree remove --force $wt >/dev/null 2>&1
  git -C /repo worktree add -q --detach $wt HEAD || { echo "$name WORKTREE-FAIL"; continue; }
  if ! (cd $wt && git apply $d/patch.diff 2>/dev/null); then
    echo "$name $pid PATCH-DOES-NOT-APPLY"; git -C /repo worktree remove --force $wt; continue
  fi
  out=$(cd /verif && VERIF_REPO=$wt ./check $pid 2>&1 | tail -1)
  echo "$name $out" | cut -c1-160
  alt=$(python3 -c "import hashlib;print(hashlib.sha1('$wt'.encode()).hexdigest()[:10])")
  git -C /repo worktree remove --force $wt >/dev/null 2>&1; rm -rf /verif/.build/alt-$alt
done
