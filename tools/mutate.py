#!/usr/bin/env python3
"""Automated mutation analysis of the monitors (diagnostic, not part of any verdict).

  tools/mutate.py PID [--max 40] [--workers 4] [--seed 1] [--files f1,f2]

For the files anchored by property PID (properties.jsonl) it generates single-site
mutants (relational / logical / arithmetic operator swaps, constant +-1, true<->false,
negated if-conditions, dropped call statements), and for each one, on a scratch worktree:
  1. builds the package and runs the package's EXISTING tests (tag off); a mutant they
     reject is 'killed-by-existing-tests' and is of no interest;
  2. otherwise runs `./check PID` against the mutated tree (VERIF_REPO): VIOLATED =>
     'killed-by-monitor', HELD => 'SURVIVED' (equivalent, irrelevant to the statement, or
     a gap of the monitor - to be triaged), anything else is recorded as such.
Results: /verif/mutation/PID.jsonl (one JSON object per mutant) and a summary line.
"""
import concurrent.futures as cf
import hashlib
import json
import os
import random
import re
import shutil
import subprocess
import sys
import threading

VERIF = "/verif"
REPO = "/repo"
ENV = dict(os.environ, GOFLAGS="-mod=mod", GOPROXY="off", GOSUMDB="off", GOTOOLCHAIN="local", GOWORK="off")

OPS = [
    ("rel", r" <= ", " < "), ("rel", r" < ", " <= "), ("rel", r" >= ", " > "), ("rel", r" > ", " >= "),
    ("rel", r" == ", " != "), ("rel", r" != ", " == "),
    ("logic", r" && ", " || "), ("logic", r" \|\| ", " && "),
    ("arith", r" \+ ", " - "), ("arith", r" - ", " + "), ("arith", r" \* ", " / "),
    ("bool", r"\btrue\b", "false"), ("bool", r"\bfalse\b", "true"),
]


def candidates(path, rel):
    out = []
    try:
        lines = open(path).read().split("\n")
    except OSError:
        return out
    in_block_comment = False
    in_import = False
    in_const = False
    for i, line in enumerate(lines):
        s = line.strip()
        if in_block_comment:
            if "*/" in s:
                in_block_comment = False
            continue
        if s.startswith("/*"):
            in_block_comment = "*/" not in s
            continue
        if s.startswith("//") or not s:
            continue
        if s.startswith("import ("):
            in_import = True
            continue
        if in_import:
            if s == ")":
                in_import = False
            continue
        if s.startswith("import ") or s.startswith("package "):
            continue
        if re.match(r"(const|var) \($", s):
            in_const = True
            continue
        if in_const:
            if s == ")":
                in_const = False
            continue
        code = line.split(" //")[0]
        if '"' in code or "`" in code:
            # do not touch string literals: mutate only the part before the first quote
            code_part = code.split('"')[0].split("`")[0]
        else:
            code_part = code
        for kind, pat, rep in OPS:
            for m in re.finditer(pat, code_part):
                if kind == "arith" and ("<-" in code_part or "[]" in code_part[max(0, m.start() - 2):m.start() + 2]):
                    continue
                new = line[:m.start()] + re.sub(pat, rep, line[m.start():m.end()]) + line[m.end():]
                out.append(dict(file=rel, line=i + 1, kind=kind, old=line.strip(), new=new.strip(), newline=new))
        # integer constants in expressions
        for m in re.finditer(r"(?<![\w.\"])(\d+)(?![\w.\"xX])", code_part):
            if s.startswith("case ") or "time." in code_part[m.end():m.end() + 8] and False:
                pass
            v = int(m.group(1))
            if v > 100000:
                continue
            new = line[:m.start()] + str(v + 1) + line[m.end():]
            out.append(dict(file=rel, line=i + 1, kind="const+1", old=line.strip(), new=new.strip(), newline=new))
        # negate if condition
        m = re.match(r"^(\s*)if (.+) \{$", line)
        if m and ";" not in m.group(2) and ":=" not in m.group(2):
            new = "%sif !(%s) {" % (m.group(1), m.group(2))
            out.append(dict(file=rel, line=i + 1, kind="negate-if", old=line.strip(), new=new.strip(), newline=new))
        # drop a plain call statement
        if re.match(r"^\s+[\w.\[\]()*&]+\([^=]*\)$", line) and not re.match(r"^\s+(return|defer|go|panic|if|for|switch|case|func)\b", line) and ":=" not in line:
            indent = line[: len(line) - len(line.lstrip())]
            out.append(dict(file=rel, line=i + 1, kind="drop-call", old=line.strip(), new="(removed)", newline=indent + "// mutant: statement removed"))
    return out


def sh(cmd, cwd, env=ENV, timeout=900):
    try:
        p = subprocess.run(cmd, shell=True, cwd=cwd, env=env, stdout=subprocess.PIPE, stderr=subprocess.STDOUT, text=True, errors="replace", timeout=timeout)
        return p.returncode, p.stdout
    except subprocess.TimeoutExpired as e:
        return 124, "timeout: %s" % (e.output or "")[-500:]


class Worker:
    def __init__(self, pid, k):
        self.wt = "/tmp/mut-%s-%d" % (pid, k)
        subprocess.call(["git", "-C", REPO, "worktree", "remove", "--force", self.wt], stderr=subprocess.DEVNULL)
        subprocess.check_call(["git", "-C", REPO, "worktree", "add", "-q", "--detach", self.wt, "HEAD"])
        shutil.copy(os.path.join(REPO, "go.sum"), self.wt)
        self.mod = self.wt + ".mod"
        shutil.copy(os.path.join(self.wt, "go.mod"), self.mod)
        shutil.copy(os.path.join(self.wt, "go.sum"), self.wt + ".sum")
        self.tmod = self.wt + ".tools.mod"
        open(self.tmod, "w").write("module github.com/gotid/god/tools/god\n\ngo 1.19\n\nrequire (\n\tgolang.org/x/text v0.5.0\n\tgithub.com/stretchr/testify v1.8.1\n)\n")
        shutil.copy(os.path.join(self.wt, "go.sum"), self.wt + ".tools.sum")

    def close(self):
        subprocess.call(["git", "-C", REPO, "worktree", "remove", "--force", self.wt])
        for f in (self.mod, self.wt + ".sum", self.tmod, self.wt + ".tools.sum"):
            if os.path.exists(f):
                os.remove(f)
        shutil.rmtree(os.path.join(VERIF, ".build", "alt-" + hashlib.sha1(self.wt.encode()).hexdigest()[:10]), ignore_errors=True)

    def run(self, pid, mu):
        path = os.path.join(self.wt, mu["file"])
        orig = open(path).read()
        lines = orig.split("\n")
        lines[mu["line"] - 1] = mu["newline"]
        open(path, "w").write("\n".join(lines))
        try:
            if mu["file"].startswith("tools/god/"):
                cwd = os.path.join(self.wt, "tools/god")
                pkg = "./" + os.path.dirname(mu["file"][len("tools/god/"):]) + "/"
                modfile = self.tmod
            else:
                cwd, pkg, modfile = self.wt, "./" + os.path.dirname(mu["file"]) + "/", self.mod
            rc, out = sh("go build -modfile=%s %s" % (modfile, pkg), cwd, timeout=300)
            if rc != 0:
                return "does-not-compile", out[-300:]
            rc, out = sh("go test -modfile=%s -vet=off -count=1 -timeout 300s %s" % (modfile, pkg), cwd, timeout=400)
            if rc != 0:
                return "killed-by-existing-tests", ""
            e = dict(os.environ, VERIF_REPO=self.wt)
            rc, out = sh("./check %s" % pid, VERIF, e, timeout=1500)
            last = out.strip().split("\n")[-1] if out.strip() else ""
            sigs = sorted(set(re.findall(r"signature: (\S+)", out)))[:4]
            if rc == 1:
                return "killed-by-monitor", ",".join(sigs)
            if rc == 0:
                return "SURVIVED", last[:120]
            return "other-rc%d" % rc, last[:200]
        finally:
            open(path, "w").write(orig)


def main():
    pid = sys.argv[1]
    opt = lambda k, d: sys.argv[sys.argv.index(k) + 1] if k in sys.argv else d
    maxn, workers, seed = int(opt("--max", "40")), int(opt("--workers", "4")), int(opt("--seed", "1"))
    prop = [json.loads(l) for l in open(os.path.join(VERIF, "properties.jsonl")) if json.loads(l)["id"] == pid][0]
    files = opt("--files", "").split(",") if "--files" in sys.argv else prop["anchors"]["files"]
    cands = []
    for rel in files:
        cands += candidates(os.path.join(REPO, rel), rel)
    rnd = random.Random(seed * 1000003 + int(pid[1:]))
    rnd.shuffle(cands)
    # spread over files and kinds: round-robin by (file, kind)
    buckets = {}
    for c in cands:
        buckets.setdefault((c["file"], c["kind"]), []).append(c)
    chosen = []
    keys = sorted(buckets)
    rnd.shuffle(keys)
    while len(chosen) < maxn and any(buckets.values()):
        for k in keys:
            if buckets[k] and len(chosen) < maxn:
                chosen.append(buckets[k].pop())
    os.makedirs(os.path.join(VERIF, "mutation"), exist_ok=True)
    outp = os.path.join(VERIF, "mutation", "%s.jsonl" % pid)
    done = set()
    if os.path.exists(outp) and "--fresh" not in sys.argv:
        for l in open(outp):
            r = json.loads(l)
            done.add((r["file"], r["line"], r["new"]))
    todo = [c for c in chosen if (c["file"], c["line"], c["new"]) not in done]
    print("%s: %d candidate sites, %d chosen, %d to run" % (pid, len(cands), len(chosen), len(todo)))
    pool = [Worker(pid, k) for k in range(workers)]
    free = list(pool)
    lock = threading.Lock()
    outf = open(outp, "a")

    def job(mu):
        with lock:
            w = free.pop()
        try:
            status, info = w.run(pid, mu)
        except Exception as ex:  # noqa
            status, info = "error", str(ex)[:200]
        finally:
            with lock:
                free.append(w)
        rec = dict(property=pid, file=mu["file"], line=mu["line"], kind=mu["kind"], old=mu["old"], new=mu["new"], status=status, info=info)
        with lock:
            outf.write(json.dumps(rec, ensure_ascii=False) + "\n")
            outf.flush()
            print("%-26s %s:%d [%s] %s => %s" % (status, mu["file"], mu["line"], mu["kind"], mu["old"][:60], mu["new"][:60]))
            sys.stdout.flush()

    try:
        with cf.ThreadPoolExecutor(max_workers=workers) as ex:
            list(ex.map(job, todo))
    finally:
        for w in pool:
            w.close()
        subprocess.call(["git", "-C", REPO, "worktree", "prune"])
    stats = {}
    for l in open(outp):
        r = json.loads(l)
        stats[r["status"]] = stats.get(r["status"], 0) + 1
    print("SUMMARY %s %s" % (pid, json.dumps(stats, sort_keys=True)))


if __name__ == "__main__":
    main()
