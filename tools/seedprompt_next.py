#!/usr/bin/env python3
"""seedprompt_next.py — derive round-4 seeding prompts from the round-3 ones in /tmp/seedprompts:
worktree/out paths renamed, the 'already made' list rebuilt from seeded/*/meta.json, round text updated."""
import glob, json, os, re
V = "/verif"
for p in sorted(glob.glob("/tmp/seedprompts/C*-r3.md")):
    pid = os.path.basename(p)[:3]
    s = open(p).read()
    s = s.replace("seed3-", "seed4-")
    made = []
    for m in sorted(glob.glob(V + "/seeded/%s-*/meta.json" % pid)) + sorted(glob.glob(V + "/seeded/*-x-from-%s/meta.json" % pid)):
        j = json.load(open(m))
        made.append("   - " + re.sub(r"\s+", " ", j["breaks"])[:170])
    i = s.index("Changes of the following kinds have ALREADY been made")
    k = s.index("This is the THIRD round")
    head = s[i:].split("\n")[0]
    s = s[:i] + head + "\n" + "\n".join(made) + "\n\n" + s[k:]
    s = s.replace("This is the THIRD round: the obvious sites are taken.", "This is the FOURTH round: the obvious sites, and most of the second-row ones, are taken. Good directions now: (1) effects that need CONCURRENCY or a FAULT at a particular point (a lock released too early, a check-then-act window, an error path that skips a reset); (2) CONFIGURATION boundary values (0, 1, negative, the maximum) and option combinations; (3) glue in OTHER packages that calls into this code (constructors, adapters, interceptors, config loading) - grep for the callers; (4) state that is only wrong on the SECOND use (re-open, re-add, re-start after idle, second rotation/reload).")
    open("/tmp/seedprompts/%s-r4.md" % pid, "w").write(s)
    print(pid, len(made), "earlier changes listed")
