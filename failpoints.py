"""Thorough-tier failpoint widening (DESIGN.md §1.2): copy one source file of the repo
to a scratch directory, insert `// gofail: var <name> struct{}` before/after a textual
anchor, run `gofail enable` there and overlay the generated files. Nothing is written
to the repo. If an anchor is missing the run continues un-widened and says so."""
import json
import os
import shutil
import subprocess

GOENV = {"GOFLAGS": "-mod=mod", "GOPROXY": "off", "GOSUMDB": "off", "GOTOOLCHAIN": "local", "GOWORK": "off"}


def gofail_bin(verif):
    b = os.path.join(verif, ".build", "bin", "gofail")
    if os.path.exists(b):
        return b
    gf = os.path.join(verif, ".build", "gofailmod")
    os.makedirs(gf, exist_ok=True)
    os.makedirs(os.path.dirname(b), exist_ok=True)
    with open(os.path.join(gf, "go.mod"), "w") as f:
        f.write("module verif.local/gofailbuild\n\ngo 1.19\n\nrequire go.etcd.io/gofail v0.2.0\n")
    with open(os.path.join(gf, "tools.go"), "w") as f:
        f.write("//go:build tools\n\npackage tools\n\nimport _ \"go.etcd.io/gofail\"\n")
    shutil.copy(os.path.join(verif, "vk", "extra.sum"), os.path.join(gf, "go.sum"))
    e = dict(os.environ)
    e.update(GOENV)
    subprocess.call(["go", "build", "-o", b, "go.etcd.io/gofail"], cwd=gf, env=e)
    return b if os.path.exists(b) else None


def build(pid, run, build_dir, repo, verif, outdir, env):
    """run["failpoints"] = [dict(file=<path relative to repo>, anchor=<text on the line>,
    name=<failpoint>, where="before"|"after", occurrence=1)], run["failpoint_terms"] =
    GOFAIL_FAILPOINTS value. Returns (overlay path or None, note)."""
    mod_name = run.get("module", "root")
    base_overlay = os.path.join(build_dir, "overlay.%s.%s.json" % (mod_name, pid))
    gb = gofail_bin(verif)
    if not gb:
        return None, "failpoints: gofail CLI could not be built; run un-widened"
    with open(base_overlay) as f:
        repl = json.load(f)["Replace"]
    by_file = {}
    for fp in run["failpoints"]:
        by_file.setdefault(fp["file"], []).append(fp)
    armed, missing = [], []
    by_dir = {}
    for rel, fps in by_file.items():
        by_dir.setdefault(os.path.dirname(rel), []).append((rel, fps))
    for reldir, items in by_dir.items():
        pkgname = os.path.basename(reldir)
        scratch = os.path.join(outdir, "fp", reldir.replace("/", "_"), pkgname)
        os.makedirs(scratch, exist_ok=True)
        for rel, fps in items:
            src = os.path.join(repo, rel)
            try:
                lines = open(src).read().split("\n")
            except OSError:
                missing += [fp["name"] for fp in fps]
                continue
            for fp in fps:
                occ = fp.get("occurrence", 1)
                hit = None
                for i, line in enumerate(lines):
                    if fp["anchor"] in line:
                        occ -= 1
                        if occ == 0:
                            hit = i
                            break
                if hit is None:
                    missing.append(fp["name"])
                    continue
                indent = lines[hit][: len(lines[hit]) - len(lines[hit].lstrip())]
                ins = "%s// gofail: var %s struct{}" % (indent, fp["name"])
                lines.insert(hit if fp.get("where", "before") == "before" else hit + 1, ins)
                armed.append(fp["name"])
            with open(os.path.join(scratch, os.path.basename(rel)), "w") as f:
                f.write("\n".join(lines))
        rc = subprocess.call([gb, "enable", scratch])
        if rc != 0:
            return None, "failpoints: gofail enable failed in %s; run un-widened" % scratch
        for fn in os.listdir(scratch):
            if fn.endswith(".go"):
                repl[os.path.join(repo, reldir, fn)] = os.path.join(scratch, fn)
    os.makedirs(os.path.join(outdir, "fp"), exist_ok=True)
    ov = os.path.join(outdir, "fp", "overlay.fp.json")
    with open(ov, "w") as f:
        json.dump({"Replace": repl}, f, indent=1)
    if run.get("failpoint_terms") and armed:
        env["GOFAIL_FAILPOINTS"] = run["failpoint_terms"]
    return ov, "failpoints armed=%s missing_anchor=%s terms=%s" % (armed, missing, run.get("failpoint_terms"))
