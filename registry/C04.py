SPEC = dict(
    level="exploration",
    technique="runtime monitor: reference-model oracle (independent JWT HS256/384/512 verifier, independent X-Content-Security signer+verifier, 15-line transcription of the RPC auth rule) run side by side with the real gates on generated tokens / signed requests / the complete RPC auth table",
    level_text="placeholder",
    level_note="placeholder",
    design_ref="DESIGN.md §3 C04",
    assumptions=[],
    runs=[
        dict(pkg="./api", run="^TestVerifC04", timeout=300, timeout_thorough=1500),
        dict(pkg="./rpc/internal/serverinterceptors", run="^TestVerifC04", timeout=300, timeout_thorough=1500),
    ],
)
