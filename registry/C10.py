SPEC = dict(
    level="exploration",
    technique="runtime monitor: reference model of due ticks run side by side with the real TimingWheel driven tick-by-tick through a harness ticker (barrier + goroutine quiescence); complete small family + seeded random histories",
    level_text="Every execute/drain callback of the real wheel is compared, tick by tick, with a model key->(value, due tick). Quick: the complete family of single re-schedules for slots<=5 (phase x d1 x wait x d2 x {MoveTimer, SetTimer on live key}, ~35k cases) plus 2.5k seeded random histories (30-200 ops, slots up to 300, multi-revolution delays, Remove, invalid arguments, Drain, Stop). Held = no deviation on the executions observed, not a proof.",
    level_note="Trusts: Go runtime, the harness ticker/barrier (RemoveTimer of an unused key as a barrier; runtime.NumGoroutine for callback quiescence), the 40-line model. Delays below one interval, operations between Drain and Stop other than ticks, and operations racing with Stop are outside the statement and not asserted.",
    design_ref="DESIGN.md §3 C10",
    assumptions=[
        "delays >= one interval (shorter delays are outside the statement)",
        "Drain is followed only by ticks and Stop",
        "operations after Stop are issued once the wheel's run loop has observed the stop",
        "under -race (real 1 ms ticker) only schedule-independent clauses are asserted: exactly-once, latest value, removed never fires, Drain hands over each pending task once",
    ],
    runs=[
        dict(pkg="./lib/collection", run="^TestVerifC10(Systematic|Random|LongHistory)$", timeout=240, timeout_thorough=3000),
        dict(pkg="./lib/collection", run="^TestVerifC10Race$", race=True, timeout=300, timeout_thorough=3000),
    ],
)
