SPEC = dict(
    level="exploration",
    technique="runtime monitor: reference models run side by side with the real RollingWindow and adaptiveShedder under the virtual clock of lib/timex (CPU reading scripted through systemOverloadChecker); seeded histories + a complete boundary family; -race runs with concurrent adders / 64 concurrent Allow-Pass-Fail callers; scripted-Shedder accounting oracle for the HTTP and gRPC integrations",
    level_text="Window: after every Add / time advance of 2.6k seeded 200-step histories (gaps 0, 1ns, sub-bucket, bucket+-1ns, exactly to a boundary, multi-bucket, window+-1ns, up to 3 windows, 1h; size 1..50, interval 10ns..1s, with/without IgnoreCurrentBucket) and of a complete family of ~1.9k boundary cases, the multiset of non-empty buckets shown by Reduce is compared with a list-of-adds reference; under -race 16 adders + 4 readers per phase, exact comparison at every barrier. Shedder: 500 seeded traces (400-1000 ops) of arrivals, Pass/Fail, whole-ms time advances and CPU readings; every Allow is checked against the two implications of the statement with a reference copy of the windows, flying against the outstanding list at every quiescent point; under -race 64 goroutines (frozen clock, and clock advanced concurrently). Held = no deviation on the executions observed, not a proof.",
    level_note="Trusts: Go runtime and race detector, the virtual clock hook, the ~60-line reference models. Not asserted (the statement does not determine it, or it would flag a shedder that merely rejects less): the exact moment 1000 ms after the last overload reading; rejections the reference would make but the shedder does not (droppedRecently gate, max(1,..) floor, 1000 ms default/cap of the minimum latency, rounding of the per-bucket mean: the reference capacity uses floor and no lower bound so it is never above the implementation's); the EWMA formula (only 0 <= avgFlying <= max outstanding); order and number of buckets handed to Reduce (only the non-empty ones as a multiset); which HTTP status / gRPC error maps to Pass vs Fail (recorded in evidence); time moving *during* a call (updateOffset reads the clock twice; the property quantifies over calls separated by advances, so the clock moves only between calls in every deciding oracle); SheddingStat counters and stat.CpuUsage itself (replaced by the scripted reading).",
    design_ref="DESIGN.md §3 C09",
    assumptions=[
        "bucket grid origin: the statement does not say where the grid starts; windows are created on a multiple of the interval (creation grid == absolute grid), and in the 'unaligned' family an output is reported only if it is inconsistent with both the creation-time grid and the absolute grid",
        "added values are small positive integers, latencies whole milliseconds and shedder time steps whole milliseconds, so no floating-point rounding decides a verdict (a relative tolerance of 1e-9 on the capacity comparison absorbs the float product in maxFlight)",
        "shedder bucket durations divide one second exactly (50..1000 ms) and the shedder is created on the bucket grid",
        "an overload 'observation' is an Allow call during which the scripted CPU reading is >= the configured threshold; 'within the last second' is decided only strictly away from exactly 1000 ms",
        "the virtual clock never moves while a window or shedder call is in progress in the deciding oracles; in the -race variant with a concurrently advancing clock only in-flight conservation (flying >= own outstanding, == 0 at quiescence) is asserted",
        "capacity conjunct of implication (2) uses the complete (non-current) buckets of the reference windows; with empty reference windows the capacity is taken as 0 (only flying > 0 and avg > 0 are required)",
    ],
    runs=[
        dict(pkg="./lib/collection", run="^TestVerifC09Window", timeout=240, timeout_thorough=1500),
        dict(pkg="./lib/collection", run="^TestVerifC09Race", race=True, timeout=300, timeout_thorough=1500),
        dict(pkg="./lib/load", run="^TestVerifC09Shedder", timeout=240, timeout_thorough=1500),
        dict(pkg="./lib/load", run="^TestVerifC09Race", race=True, timeout=300, timeout_thorough=2400),
        dict(pkg="./api/handler", run="^TestVerifC09", timeout=240, timeout_thorough=900),
        dict(pkg="./rpc/internal/serverinterceptors", run="^TestVerifC09", timeout=240, timeout_thorough=900),
    ],
)
