SPEC = dict(
    level="exploration",
    technique="runtime monitor",
    level_text="wip",
    level_note="wip",
    design_ref="DESIGN.md §3 C09",
    assumptions=[],
    runs=[
        dict(pkg="./lib/collection", run="^TestVerifC09Window", timeout=240, timeout_thorough=1500),
        dict(pkg="./lib/collection", run="^TestVerifC09Race", race=True, timeout=300, timeout_thorough=1500),
        dict(pkg="./lib/load", run="^TestVerifC09Shedder", timeout=240, timeout_thorough=1500),
        dict(pkg="./lib/load", run="^TestVerifC09Race", race=True, timeout=300, timeout_thorough=1500),
        dict(pkg="./api/handler", run="^TestVerifC09", timeout=240, timeout_thorough=900),
        dict(pkg="./rpc/internal/serverinterceptors", run="^TestVerifC09", timeout=240, timeout_thorough=900),
    ],
)
