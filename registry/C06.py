SPEC = dict(
    level="exploration",
    technique="runtime monitor (placeholder while building)",
    level_text="wip",
    level_note="wip",
    design_ref="DESIGN.md §3 C06",
    assumptions=[],
    runs=[
        dict(pkg="./lib/store/cache", run="^TestVerifC06Retry", timeout=300, timeout_thorough=1500),
    ],
)
