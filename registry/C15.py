SPEC = dict(
    level="exploration",
    technique="runtime monitor: real discov.Subscribers on the real registry/cluster bound to a model etcd (own EtcdClient injected through connManager); reference model of the key set and of exclusive ownership; oracle at quiescence reached by channel handshakes; -race run with concurrent publishers, watch streams, readers, late joiners and reloads",
    level_text="placeholder",
    level_note="placeholder",
    design_ref="DESIGN.md §3 C15",
    assumptions=[],
    runs=[
        dict(pkg="./lib/discov/internal", run="^TestVerifC15(Systematic|Histories|Reconnect|TwoStreams|GetRetry|EndToEnd)$", timeout=200, timeout_thorough=3000),
        dict(pkg="./lib/discov/internal", run="^TestVerifC15ReloadInflight$", timeout=200, timeout_thorough=3000),
        dict(pkg="./lib/discov/internal", run="^TestVerifC15Race", race=True, timeout=200, timeout_thorough=3000),
    ],
)
