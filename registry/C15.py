_PKG = "./lib/discov/internal"
_REG = "lib/discov/internal/registry.go"

SPEC = dict(
    level="exploration",
    technique="runtime monitor: real discov.Subscribers (and Publishers) on the real registry/cluster/stateWatcher code bound to a model etcd (own EtcdClient injected through connManager, revisioned store + event log, harness-fed unbuffered watch channels); reference model of the live key set and of exclusive ownership; oracle only at quiescence, which is observed (goroutine states of the watch loops, listener counters, gates) and never slept for; complete small family + seeded random histories + gated schedules + -race concurrent rounds",
    level_text="Compares, at every quiescent point of a generated history, set(Subscriber.Values()) with the distinct values of the model etcd's live keys (exclusive mode: value listed iff its most recent publisher key is live, with owner sets where the announcement order inside one snapshot is unspecified), for late joiners immediately after NewSubscriber returns, plus: no repeated value, change listener ran and its last run saw the final set whenever the set changed, a Ready after a connection loss starts a reload (stateWatcher.updateState), reload returns. Quick: complete family of 2x6^4 words over {toggle 3 keys (2 share a value), deliver, reload, late-join}; 1200 random histories (20-60 ops: put/del delivered in varied batches over several watch streams or missed until a reload, reloads, attaches, broken/cancelled watch streams, progress notifications, 1-2 service keys); 600 histories driven through the real stateWatcher; 150 gated 'reload during event processing', 120 gated 'subscriber of a new key joins while the reload waits' (also 40 under -race) and 60 gated 'two streams out of step' schedules; 400 'rekeyed' histories (a deleted key comes back with another value); Get failure + retry with RequestTimeout (300 ms) shorter than the retry cool-down (the model etcd fails Gets whose context is already expired, as a client does); 3 'first NewSubscriber fails in the client dial, retry succeeds' histories; 40 (+15 under -race) reader-storm histories (4 goroutines spinning on Values() while events are delivered, oracle after every response); 60 histories with real Publishers (KeepAlive/Stop/Pause/Resume/fixed id/lease loss); 80 histories with the real stateWatcher.watch loop on a scripted connection (reconnects that complete between two calls of the watcher); 2 histories on a real gRPC connection to a loopback server that is stopped and restarted (real watchConnState + stateWatcher.watch); 150 histories through the discov resolver builder (last cc.UpdateState state == live value set; in every second one a registration/expiration is delivered from inside Build's first UpdateState); 300 concurrent rounds under -race. Held = no deviation on the executions observed, not a proof.",
    level_note="Trusts: Go runtime and race detector, the ~300-line model etcd (Get snapshot+revision atomic, Watch replays the log from the requested revision), the exclusive-owner model, runtime.Stack goroutine states as the 'event fully processed' handshake. Not asserted (sound to omit): a key changing its value during its life (excluded by the quantifier); anything while undelivered changes exist (only after delivery or reload); which of several keys of one snapshot owns a shared value in exclusive mode (announcement order unspecified: either accepted); listener invocation counts beyond 'ran, and last run saw the final set'; a subscriber joining at an arbitrary point of a running reload (only the gated, WaitGroup-ordered window is scheduled); real gRPC connectivity transitions (the state watcher is fed a scripted etcdConn).",
    design_ref="DESIGN.md §3 C15",
    assumptions=[
        "values are arbitrary strings including the empty string (one value pool in three contains it); each life of a key carries one value; a live key is never overwritten with another value. In all families but Rekeyed a key keeps its value over all its lives; in Rekeyed a deleted key may be registered again with another value (delete and re-registration delivered, or both missed until a reload)",
        "the model etcd is faithful where the registry depends on it: Get returns snapshot and revision atomically, a watch created WithRev(r) is replayed every event with revision >= r in order, delete events carry the key only",
        "events are delivered in revision order per watch stream; 'missed' events are exactly those undelivered when a reload starts",
        "a watch response without events (progress notification) is legal input; an error response (Canceled, or CompactRevision set) is the last one on its channel, which is then closed, as the etcd client does",
        "exclusive mode: among keys announced by one snapshot (first load, late join, reload) any may be the owner of a shared value; after a re-subscription that replays older revisions both the view with and without the replay are accepted",
        "subscribers join while no reload is in progress, except in the gated join-during-reload family (new key, reload observed parked in its wait, NewSubscriber returned before the gate opens), whose accesses are ordered through the WaitGroup",
        "hang verdicts (NewSubscriber / stateWatcher.updateState / reload not returning / watch goroutines not returning to their loop; only awaited when the harness holds no listener back; plus, for the snapshot-not-accepted class, >= 3 successful Gets answered meanwhile): the goroutine is parked on a mutex of the package for 20 s with nothing else running in the package; a state watcher that is never seen waiting during 20 s of a constant connection state counts as stuck",
        "reload deadlock verdict: reload goroutine parked in WaitGroup.Wait and a watch goroutine parked on the cluster mutex for 20 s with nothing else running is the witness (the property there is termination of the reload)",
    ],
    runs=[
        dict(pkg=_PKG, run="^TestVerifC15(Systematic|Histories|Rekeyed|Reconnect|TwoStreams|GapAfterSnapshot|GetRetry|EndToEnd|ReaderStorm)$", timeout=240, timeout_thorough=3000),
        # own process: a deadlocked cluster leaves parked goroutines behind
        dict(pkg=_PKG, run="^TestVerifC15(ReloadInflight|JoinDuringReload)$", timeout=240, timeout_thorough=3000),
        # own process: connection-state watcher goroutines never exit (they would slow every goroutine dump of the
        # other families); the last family creates (and fails to create) a real etcd client
        dict(pkg=_PKG, run="^TestVerifC15(RealConnState|QuickReconnect|RetryAfterDialFailure)$", timeout=240, timeout_thorough=3000),
        dict(pkg=_PKG, run="^TestVerifC15Race", race=True, timeout=240, timeout_thorough=3000),
        # resolver builder on top of the subscriber (model etcd put into lib/discov/internal's connManager through a go:linkname reference in the test file)
        dict(pkg="./rpc/resolver/internal", run="^TestVerifC15Resolver", timeout=240, timeout_thorough=3000),
        dict(pkg=_PKG, run="^TestVerifC15Race", race=True, thorough_only=True, timeout_thorough=3000,
             env_thorough={"C15_RACE_ROUNDS": "1200"},
             failpoints=[
                 dict(file=_REG, anchor="for _, kv := range add {", name="c15Emit", where="before"),
                 dict(file=_REG, anchor="l.OnAdd(KV{", name="c15Notify", where="before"),
                 dict(file=_REG, anchor="return c.monitor(key, l)", name="c15Join", where="before"),
             ],
             failpoint_terms="c15Emit=30.0%sleep(1);c15Notify=10.0%sleep(1);c15Join=50.0%sleep(1)"),
    ],
)
