SPEC = dict(
    level="exploration",
    technique="runtime monitor on a recording database/sql driver: exhaustive body-outcome x driver-fault table for Transact/TransactCtx (sqlx and sqlc), sqlmock cross-check, seeded multi-transaction histories; seeded reflect.StructOf destination shapes x scripted result sets for the row mapper",
    level_text="placeholder",
    level_note="placeholder",
    design_ref="DESIGN.md §3 C11",
    assumptions=[],
    runs=[
        dict(pkg="./lib/store/sqlx", run="^TestVerifC11", timeout=240, timeout_thorough=1500),
    ],
)
