_FP_FILE = "lib/executors/periodicalexecutor.go"

SPEC = dict(
    level="exploration",
    technique="runtime monitor: recorded history of Add/Wait/execute events stamped from one atomic sequence, checked after each scenario (exactly once, batch order, bulk/chunk bounds, Wait-after-Add, tick liveness/quiescence); real Bulk/Chunk/PeriodicalExecutor on a harness ticker (unbuffered, offered ticks) and the virtual clock; gated execute callbacks for staged schedules; seeded random interleavings plainly and under the Go race detector; gofail sleeps at the hand-off points in the thorough tier",
    level_text="Held = no deviation on the executions observed, not a proof. Quick: 4 000 + 3 000 (-race) seeded interleavings of 1-8 adders with a ticking/idling/flushing/waiting driver over bulk, chunk and bare periodical executors (thresholds 1-5 tasks / 2-10 bytes), ~60 staged hand-off schedules with gated execute callbacks (Wait issued while a threshold batch sits between the adder's unlock and the flusher's registration), ~700 idle-retirement schedules (Add steered into the flusher's quit window with a held executor lock, restart by a later Add, liveness through ticks only). Thorough: 15-30x the cases plus the same families with gofail sleeps after the unlock in Add, before the flusher's confirm and at the entry of shallQuit.",
    level_note="Trusts: Go runtime and race detector, sync/atomic total order for the stamps, the harness ticker, the 120-line history checker. A verdict never depends on wall-clock time: orderings are stamp comparisons with a real happens-before edge; 'never executed' is decided only when every library goroutine is parked in the flusher's select (goroutine dump); 25 s without progress inside Add/Wait/Flush is reported as a hang because termination of Wait/Add is part of the statement. Not asserted: that a tick flushes at a particular moment (a tick after a commanded batch is legitimately skipped; a dropped tick is a no-op), that Flush waits for batches taken by someone else, that the flusher must retire (only counted; zero retirements make the idle test inconclusive), anything about LessExecutor, and the SQL/metrics containers of lib/store/sqlx and lib/stat (they reuse PeriodicalExecutor with an append/RemoveAll container like the harness's typed container).",
    design_ref="DESIGN.md §3 C16",
    assumptions=[
        "execute callbacks do not call back into the executor (no re-entrancy) and do not panic",
        "task sizes of the chunk executor are positive",
        "tick liveness is asserted only for three ticks that the flusher actually took after Add returned (an offered tick that is not taken within 50 ms is dropped and counts for nothing)",
        "'added before Wait' means: Add returned, then a stamp was drawn from the shared atomic sequence, then a later stamp was drawn, then Wait was called (same or different goroutine)",
        "batches of one executor may execute concurrently (Flush callers and the flusher); no order between batches is asserted",
    ],
    runs=[
        dict(name="plain", pkg="./lib/executors", run="^TestVerifC16(Handoff|Idle|Mix)$", timeout=300, timeout_thorough=2400,
             hang_is_violation=True),
        dict(name="race", pkg="./lib/executors", run="^TestVerifC16Race$", race=True, timeout=300, timeout_thorough=2400,
             hang_is_violation=True),
        dict(name="fp-handoff", pkg="./lib/executors", run="^TestVerifC16(FpMix|Handoff)$", thorough_only=True, timeout_thorough=1500,
             hang_is_violation=True, env_thorough={"C16_FP": "handoff"},
             failpoints=[
                 dict(file=_FP_FILE, anchor="pe.commander <- values", name="c16AfterUnlock", where="before"),
                 dict(file=_FP_FILE, anchor="pe.confirmChan <- lang.Placeholder", name="c16BeforeConfirm", where="before"),
             ],
             failpoint_terms="c16AfterUnlock=25.0%sleep(1);c16BeforeConfirm=25.0%sleep(1)"),
        dict(name="fp-quit", pkg="./lib/executors", run="^TestVerifC16(FpMix|Idle)$", thorough_only=True, timeout_thorough=1500,
             hang_is_violation=True, env_thorough={"C16_FP": "quit"},
             failpoints=[
                 dict(file=_FP_FILE, anchor="if timex.Since(last) <= pe.interval*idleRound {", name="c16ShallQuit", where="before"),
             ],
             failpoint_terms="c16ShallQuit=sleep(1)"),
    ],
)
