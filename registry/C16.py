_FP_FILE = "lib/executors/periodicalexecutor.go"

SPEC = dict(
    level="exploration",
    technique="runtime monitor: recorded history of Add/Wait/execute events stamped from one atomic sequence, checked after each scenario (exactly once, batch order, bulk/chunk bounds, Wait-after-Add, tick liveness/quiescence); real Bulk/Chunk/PeriodicalExecutor on a harness ticker (unbuffered, offered ticks) and the virtual clock; gated execute callbacks for staged schedules; seeded random interleavings plainly and under the Go race detector; gofail sleeps at the hand-off points in the thorough tier",
    level_text="Held = no deviation on the executions observed, not a proof. Quick: 4 000 plain + 3 000 -race seeded interleavings of 1-8 adder goroutines (Add/Wait/Flush/yield programs) against a ticking/idling/flushing/waiting driver over bulk, chunk and bare periodical executors (thresholds incl. the boundaries: 1, 2-10, out of reach (1000 tasks / 1 MiB / a container that never asks for a flush); chunk task sizes small 1-4, boundary {0, 1, limit-1, limit, limit+1, 2*limit+3}, all 0, mostly 0; GOMAXPROCS 2-16); 48 staged hand-off schedules with gated execute callbacks (a contributor or bystander calls Wait while a threshold batch sits between the adder's unlock and the flusher's registration); 360 idle-retirement schedules (Add steered into the flusher's quit decision by holding the executor lock through Sync, restart by a later Add, a task behind a commanded batch, liveness through ticks alone); ~90 Flush-only schedules (one goroutine adds below the threshold, no tick, no Wait, Flush: once Flush returned and the library is quiescent the tasks must have been executed); ~110 re-entrant schedules (execute re-adds its tasks once below the threshold; first generation run by Flush/Wait/tick/threshold hand-over; every call returns, both generations exactly once); 120 multi-instance schedules (2-3 Bulk/Chunk executors created in every order from explicit-small / explicit-larger-than-default / no-option / interval-only / limit-only configurations, loaded concurrently, each judged against its own configured or default limit). Thorough: 15-30x the cases plus the random, hand-off and idle families again with gofail sleeps before the send on commander, after inflight--, before the confirm and at the entry of shallQuit.",
    level_note="Trusts: Go runtime and race detector, the sync/atomic total order behind the stamps, the harness ticker, the ~150-line history checker. No verdict depends on wall-clock time: orderings are stamp comparisons with a real happens-before edge (Add returned -> stamp -> stamp -> Wait called; Wait returned -> stamp -> stamp -> execute callback about to return); 'never executed' / 'stranded' is decided only when every library goroutine is a flusher parked in its select or gone (goroutine dump) after three ticks it actually took; 25 s without progress of any actor inside Add/Wait/Flush is reported as a hang because 'Wait returns' is part of the statement. Not asserted: how long a non-re-entrant Add may be delayed by a running execute (only that it returns), that Flush has executed its tasks by the time it returns (only that it triggers their execution), that a particular tick flushes (the tick after a commanded batch is skipped by design, a dropped tick is a no-op), that Flush waits for batches removed by somebody else, that the flusher must retire (counted; zero completed idle scenarios make the idle test inconclusive), order between batches, exact batch sizes below the bound, LessExecutor (not in the statement), and the SQL / metrics containers of lib/store/sqlx and lib/stat, which reuse PeriodicalExecutor with an append/RemoveAll container like the harness's typed container (the hand-shake under test lives in PeriodicalExecutor).",
    design_ref="DESIGN.md §3 C16",
    assumptions=[
        "execute callbacks do not panic; they may call Add on their own executor (retry pattern, TestVerifC16Reentrant) as long as that Add stays below the threshold - a threshold-reaching Add waits for the background flusher by design and can never complete from inside the flusher's own execute; the random/staged families use callbacks that do not call back",
        "a batch handed to the execute function belongs to it: the callback may keep the slice (record it, queue it to a worker), so every recording callback keeps the slice it was handed and the monitor re-reads it after the scenario's last Wait; the library must not write to it or reuse its backing array (signature C16:batch-mutated-after-execute)",
        "task sizes of the chunk executor are non-negative (0 included: such a task never reaches the byte limit by itself and is run by tick/Flush/Wait/retirement); byte limit and bulk task count are >= 1",
        "tick liveness is asserted only for three ticks that the flusher actually took after Add returned (an offered tick that is not taken within 50 ms is dropped and counts for nothing)",
        "'added before Wait' means: Add returned, then a stamp was drawn from the shared atomic sequence, then a later stamp was drawn, then Wait was called (same or different goroutine)",
        "batches of one executor may execute concurrently (Flush callers and the flusher); no order between batches is asserted",
    ],
    runs=[
        dict(name="plain", pkg="./lib/executors", run="^TestVerifC16(Reentrant|Handoff|Idle|Flush|Instances|Mix)$", timeout=300, timeout_thorough=2400,
             hang_is_violation=True),
        dict(name="race", pkg="./lib/executors", run="^TestVerifC16Race$", race=True, timeout=300, timeout_thorough=2400,
             hang_is_violation=True),
        dict(name="bulkinserter", pkg="./lib/store/sqlx", run="^TestVerifC16BulkInserterRace$", race=True, timeout=300, timeout_thorough=1800,
             hang_is_violation=True),
        dict(name="bulkinserter-updatestmt", pkg="./lib/store/sqlx", run="^TestVerifC16BulkInserterUpdateStmt$", timeout=300, timeout_thorough=1800,
             hang_is_violation=True),
        dict(name="metrics", pkg="./lib/stat", run="^TestVerifC16MetricsRace$", race=True, timeout=300, timeout_thorough=1800,
             hang_is_violation=True),
        dict(name="metrics-tick", pkg="./lib/stat", run="^TestVerifC16MetricsTickOnly$", race=True, timeout=300, timeout_thorough=1800),
        dict(name="fp-handoff", pkg="./lib/executors", run="^TestVerifC16(FpMix|Handoff)$", thorough_only=True, timeout_thorough=1500,
             hang_is_violation=True, env_thorough={"C16_FP": "handoff"},
             failpoints=[
                 dict(file=_FP_FILE, anchor="pe.commander <- values", name="c16AfterUnlock", where="before"),
                 dict(file=_FP_FILE, anchor="atomic.AddInt32(&pe.inflight, -1)", name="c16AfterInflightDec", where="after"),
                 dict(file=_FP_FILE, anchor="pe.confirmChan <- lang.Placeholder", name="c16BeforeConfirm", where="before"),
             ],
             failpoint_terms="c16AfterUnlock=25.0%sleep(1);c16AfterInflightDec=10.0%sleep(1);c16BeforeConfirm=25.0%sleep(1)"),
        dict(name="fp-quit", pkg="./lib/executors", run="^TestVerifC16(FpMix|Idle)$", thorough_only=True, timeout_thorough=1500,
             hang_is_violation=True, env_thorough={"C16_FP": "quit"},
             failpoints=[
                 dict(file=_FP_FILE, anchor="if timex.Since(last) <= pe.interval*idleRound {", name="c16ShallQuit", where="before"),
             ],
             failpoint_terms="c16ShallQuit=sleep(1)"),
    ],
)
