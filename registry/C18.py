SPEC = dict(
    level="exploration",
    technique="runtime monitor: seeded concurrent histories of the real lib/syncx primitives recorded at the caller boundary (call/return/callback stamps from one atomic sequence), checked with porcupine v1.3.0 against each primitive's sequential specification (Limit, TimeoutLimit, Pool incl. virtual-clock maxAge, RefResource) and with direct interval / gauge oracles (SingleFlight, LockedCalls, ResourceManager, ManagedResource, SpinLock, Barrier, DoneChan, OnceGuard, ImmutableResource); in-test GOMAXPROCS sweep; separate Go race detector run; thorough tier widens the delete->Done and Cond signal windows with gofail sleeps",
    level_text="Held = no deviation on the histories executed (quick: ~6k histories without and ~3k with the race detector; thorough x15 plus a failpoint-widened run; histories of <= 70 operations / <= 8 clients go through porcupine, up to 64 goroutines through the direct interval and gauge oracles), not a proof over all interleavings.",
    level_note="Trusts: Go runtime and race detector, porcupine, the 20-line sequential models, vk.Seq as the single stamp source. One-sided real-time check only for TimeoutLimit (ErrTimeout never earlier than timeout-2ms). Liveness (a blocked Get/Borrow that never returns) is outside the statement: a 25 s watchdog turns it into INCONCLUSIVE, never VIOLATION - with one exception taken from the statement ('each executes; a later call always executes afresh'): a LockedCalls.Do still parked after 25 s whose callback was never entered, while no callback of its key runs and a panicked (recovered) predecessor on that key has demonstrably returned to its caller, is reported as C18:lockedcalls:blocked-after-panic. Not asserted: LIFO order of Pool, that Pool destroys only expired resources, result of a Clean without a matching Use, behaviour of ResourceManager after Close / Set over an existing key, the values delivered to callers that share a panicked flight, fairness.",
    design_ref="DESIGN.md §3 C18",
    assumptions=[
        "callers respect the documented contracts: Pool.Put only of resources obtained from Get, RefResource.Clean only after an own successful Use, ResourceManager not used after Close, Set on keys not used by Get",
        "SingleFlight sharing is judged on call intervals: a result may come from an execution whose *call* overlaps the receiving call (the window between the callback's return and the map delete is legal sharing), but not once any call served by that execution has returned (then a later call must execute afresh)",
        "TryBorrow/Return follow the exact counter specification (the property asks for linearizability against the sequential specification); a timed Borrow may time out in any state (lost wake-ups are not asserted against)",
        "Pool: which idle resource Get picks, and whether it reuses or creates, is left open; destroy of a non-expired idle resource is not flagged",
        "callbacks / create / generate functions may panic and the calling goroutine recovers; callers sharing a panicked single flight receive (nil, nil) (HEAD behaviour, accepted), ResourceManager.Get callers sharing a panicked create may themselves panic (accepted, counted as failed Gets)",
        "ManagedResource: a resource is replaced only after MarkBroken was called with that very resource (stale reports must leave the current resource alone)",
        "integration boundary: of the production users of the primitives only api/handler.MaxConns (syncx.Limit) is driven here; the other users (SingleFlight in rpc/proxy, lib/collection cache, lib/store/cache, sqlc; ResourceManager in redis/sqlx/discov; SpinLock in lib/load; Barrier in lib/executors; DoneChan in discov publisher) belong to the monitors of those packages (C06/C08/C09/C15/C16/C17)",
        "ImmutableResource is checked sequentially only (concurrent Gets may legitimately fetch concurrently)",
    ],
    runs=[
        dict(pkg="./lib/syncx", run="^TestVerifC18Plain", timeout=300, timeout_thorough=3000),
        dict(pkg="./lib/syncx", run="^TestVerifC18Race", race=True, timeout=400, timeout_thorough=3000),
        dict(pkg="./api/handler", run="^TestVerifC18MaxConns", timeout=300, timeout_thorough=1500),
        dict(pkg="./lib/syncx", run="^TestVerifC18Plain(Flight|Limit)", name="failpoints", thorough_only=True, timeout_thorough=3000,
             failpoints=[
                 dict(file="lib/syncx/singleflight.go", anchor="c.wg.Done()", name="c18SfBeforeDone", where="before"),
                 dict(file="lib/syncx/lockedcalls.go", anchor="wg.Done()", name="c18LcBeforeDone", where="before"),
                 dict(file="lib/syncx/condition.go", anchor="elapsed := timex.Since(begin)", name="c18CondSignalled", where="before"),
             ],
             failpoint_terms="c18SfBeforeDone=20.0%sleep(1);c18LcBeforeDone=20.0%sleep(1);c18CondSignalled=30.0%sleep(1)"),
    ],
)
