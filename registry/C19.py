SPEC = dict(
    level="exploration",
    technique="runtime monitor: seeded random write/rotate/close/reopen histories against the real RotateLogger in per-history directories, then a checker over the directory contents (length-framed records, gunzip of backups) and over the set of surviving pre-seeded files; the rule is observed through a delegating RotateRule wrapper",
    level_text="Quick: 64 size-rule histories (2-6 real rotations each, spaced 1.1 s, run 32 wide) and 620 daily-rule histories (600 on a simulated calendar with 1-6 day changes, 20 on the unmodified DailyRotateRule) per seed; thorough: 1000 + 20200, 1-3 sessions each, gzip on/off, keepDays/maxBackups/maxSize/delimiter/file name varied, pre-seeded backups around the retention boundary plus unrelated files. For every history: each record accepted by Write and confirmed processed before Close is on disk exactly once, byte-identical, in order, in the current file or a backup (gunzipped when .gz; backups must be .gz when compression is on); no file exceeds maxSize by more than its largest record; the current file, unrelated files, pre-existing backups inside the retention and the newest maxBackups backups are still present and unchanged. Held = no deviation in the histories observed, not a proof.",
    level_note="Trusts: the Go runtime and the local file system; the delegating rule wrapper (records BackupFilename/MarkRotated/OutdatedFiles calls, delays size-triggered rotations so they are >= 1.1 s apart); the simulated calendar replaces ShallRotate/BackupFilename/MarkRotated of DailyRotateRule (they read time.Now and have no seam) while OutdatedFiles is the real one. One-sided retention: files that should be deleted but are kept are only counted.",
    design_ref="DESIGN.md §3 C19",
    assumptions=[
        "size-triggered rotations are at least 1.1 s apart (enforced by the harness inside the rule's ShallRotate); a history in which the rule nevertheless returns the same backup name twice is not judged",
        "process runs with TZ=UTC: backup names order lexicographically like their timestamps (no zone-offset change inside the retention window)",
        "only records written before the last barrier of a session (writer channel observed empty after a later record was queued) are required on disk; records still queued or in flight when Close is called may be dropped or written, but never duplicated, torn or reordered",
        "clean-up is judged one-sidedly (the statement says 'removes only'): an outdated backup that is left in place is counted in the evidence, not flagged; pre-seeded size-rule backups are kept at least 1 h away from the keepDays boundary, daily ones are judged at day resolution against the boundary computed after the history",
        "when maxBackups > 0, records missing from disk are accepted only if the backup that received them (per the observed MarkRotated calls) was itself removed as beyond maxBackups",
        "delimiters and file names contain no glob metacharacters; compress flag of the logger equals the gzip flag of the rule (as in logx.createOutput)",
        "the property does not quantify over schedules: no -race run; Write is called from one goroutine per logger",
    ],
    runs=[
        dict(pkg="./lib/logx", run="^TestVerifC19", timeout=300, timeout_thorough=2400, env={"TZ": "UTC"}),
    ],
)
