SPEC = dict(
    level="exploration",
    technique="runtime monitor: per-event invariant checker over the real p2cPicker's subConn state (in-package, atomic reads) on the virtual lib/timex clock with a seeded picker PRNG; seeded random Pick/Done/advance histories, fixed-size statistical scenarios for the derived clauses, the registered balancer over a fake ClientConn, and a 16-caller run under the Go race detector",
    level_text="placeholder",
    level_note="placeholder",
    design_ref="DESIGN.md §3 C14",
    assumptions=[],
    runs=[
        dict(pkg="./rpc/internal/balancer/p2c", run="^TestVerifC14(Trace|Derived|Registered)$", timeout=300, timeout_thorough=2400),
        dict(pkg="./rpc/internal/balancer/p2c", run="^TestVerifC14Race$", race=True, timeout=300, timeout_thorough=2400, count_thorough=3),
    ],
)
