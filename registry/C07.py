SPEC = dict(
    level="exploration",
    technique="runtime monitor: instrumented generator/mapper/reducer callbacks record every item, value, cancel, panic, context event and reducer Write with sequence stamps; an oracle over the recorded history decides outcome class, exactly-once/at-most-once delivery, worker bound, termination (25 s watchdog per call) and goroutine-leak freedom (scan of all goroutine stacks for lib/mr frames); gated scenario families + seeded random racing scenarios; separate -race run",
    level_text="Every call of MapReduce/MapReduceVoid/MapReduceChan/ForEach/Finish/FinishVoid made by the harness is judged from its recorded history. Quick: ~4.6k gated scenarios (worker settings x item counts 0..10w x entry points x {normal, reducer stops early / writes early / writes twice, cancel by mapper or reducer, first cancel wins, panic in generator/mapper/reducer, context done before / during the call, output-first-then-late-panic/cancel, cancel-or-context-then-late-panic}) with one legal outcome each (two for the ordered 'late' classes), 16k seeded random racing scenarios with a legal outcome set derived from the events executed, 150k calls with an already-cancelled context, and 4k random + reduced gated scenarios under the race detector; GOMAXPROCS rotated over 1/2/4/16. On a tree where a call does not return, the affected test function stops at the first such call (signature C07:hang:<class>, goroutine dump excerpt). Held = no deviation on the executions observed, not a proof over all schedules.",
    level_note="Trusts: Go runtime and race detector, runtime.Stack as the goroutine census, the sequence stamps taken inside user callbacks (a stamp before/after a library call brackets it), ~150 lines of oracle. Not asserted (outside the statement or undecidable from outside): which of two unordered terminating events wins; that items are still mapped after the reducer stopped early (counted only); exactly-once delivery once any cancel/panic/context event was executed (at-most-once is); reducers writing three or more times; a generator that is still blocked on its send (leak clause is conditional on the generator having returned); ForEach with a cancelled context may return normally. The thorough tier additionally widens guardedWriter.Write (between the done check and the send) and the close of the collector with gofail sleeps.",
    design_ref="DESIGN.md §3 C07",
    assumptions=[
        "user callbacks terminate (the harness' callbacks always do; every harness gate has a 60 s escape that turns the scenario inconclusive)",
        "the reducer writes at most twice (the statement covers 0, 1, 2 writes)",
        "when the reducer's output was taken by the caller strictly before a panic or cancel happened, both the value and the re-raised panic / cancel error are accepted; only returning and leak-freedom are required",
        "racing scenarios: any executed cancel that was not started after another cancel had returned may win; any raised panic may be the re-raised one",
        "a value returned by the call must be the reducer's first Write; it is not accepted if a cancel call or the context cancellation had completed before that Write started",
        "ErrReduceNoOutput (nil for MapReduceVoid/Finish) is accepted only when no cancel, panic or context event was executed, because each of those completes inside a callback that the normal shutdown has to wait for",
        "leak check: goroutines whose stack has a frame in github.com/gotid/god/lib/mr. (including 'created by' lines) 20 s after the call returned and all callbacks/generator finished",
    ],
    runs=[
        dict(name="plain", pkg="./lib/mr", run="^TestVerifC07(Gated|Late|Random|CtxAlreadyDone)", timeout=420, timeout_thorough=3000,
             hang_is_violation=True),
        dict(name="race", pkg="./lib/mr", run="^TestVerifC07Race", race=True, timeout=420, timeout_thorough=3000,
             hang_is_violation=True),
        dict(name="failpoints", pkg="./lib/mr", run="^TestVerifC07(Gated|Late|Random)", timeout=600, timeout_thorough=3000,
             thorough_only=True, hang_is_violation=True, env_thorough={"C07_FAILPOINT_RUN": "1"},
             failpoints=[
                 dict(file="lib/mr/mapreduce.go", anchor="w.channel <- v", name="fpC07Write", where="before"),
                 dict(file="lib/mr/mapreduce.go", anchor="close(mCtx.collector)", name="fpC07CloseCollector", where="before"),
             ],
             failpoint_terms="fpC07Write=3.0%sleep(1);fpC07CloseCollector=10.0%sleep(1)"),
    ],
)
