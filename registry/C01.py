SPEC = dict(
    level="exploration",
    technique="tmp",
    level_text="tmp",
    level_note="tmp",
    design_ref="DESIGN.md §3 C01",
    assumptions=[],
    runs=[
        dict(pkg="./lib/breaker", run="^TestVerifC01(Model|TripRecover)$", timeout=240, timeout_thorough=1500),
        dict(pkg="./lib/breaker", run="^TestVerifC01Race$", race=True, timeout=240, timeout_thorough=1500, count_thorough=5),
    ],
)
