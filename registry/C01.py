_T = dict(timeout=240, timeout_thorough=1800)

SPEC = dict(
    level="exploration",
    technique="runtime monitor: reference model of the 40x250ms outcome window run side by side with the real breaker on the virtual clock (lib/timex hook), compared with googleBreaker.history() before and after every call; martingale bound on rejection frequency vs. the model's drop ratio; -race stress with accounting checked at quiescence; black-box benign/failing outcome tables through the real HTTP, gRPC, SQL and Redis integrations",
    level_text="Quick: 300 seeded histories (200-2000 steps, ~175k calls) over Do/DoWithAcceptable/DoWithFallback/DoWithFallbackAcceptable/Allow(+deferred Accept/Reject), direct and via the named registry, outcomes ok/acceptable err/unacceptable err/panic, clock advances around every bucket and window boundary before and inside calls; each call is checked for: admitted whenever the model's trailing window has total-5 <= 1.5*accepts; a call whose req did not run returns/feeds ErrServiceUnavailable exactly once and records nothing; an admitted call records exactly one outcome of the right polarity (history() == model after every step); panic re-raised unchanged. 12 trip/recover scripts (>=500 failures => >=1 rejection in the next 200 calls; after >=10 s no rejection). -race: 120 phases x 32 goroutines x 30 calls on 3 named breakers with a concurrent clock advancer, accounting at quiescence, Get(name) identity. Integration tables: HTTP statuses 100-599 through BreakerHandler, all 17 gRPC codes through codes.Acceptable and the client/unary/stream interceptors, SQL (conn flavours plain / accept option set / NewMySQL x all 14 breaker-guarded entry points Exec, Prepare, QueryRow(s)[Partial], Transact and Ctx forms x nil/ErrNoRows/ErrTxDone/Canceled/flavour-accepted error/driver errors: the built-in benign set must stay benign on conns carrying a custom accept), Redis (nil/redis.Nil/Canceled/ERR replies/expired context): every benign outcome alone x150 and 10000 mixed => 0 rejections, every failing outcome alone x400 => at least one rejection. Held = no deviation on the executions observed, not a proof.",
    level_note="Trusts: Go runtime and race detector, the lib/timex virtual-clock hook, the ~40-line bucket model (buckets aligned to the breaker's birth, 40 visible including the current one), the transparent spy breakers used in sqlx/redis (delegate to the real breaker). The random decision of an individual rejectable call is never asserted; the frequency clause uses the anchored drop-ratio formula max(0,(total-5-1.5*accepts)/(total+1)) with a martingale threshold 8*sigma+25 (false-alarm probability < 1e-12 per band). Integration tables outside lib/breaker are black box (rejected = protected function did not run): a benign outcome that was mis-recorded as a failure is seen because 150 of them in a row would trip the breaker with probability > 1-1e-100.",
    design_ref="DESIGN.md §3 C01",
    assumptions=[
        "the trailing 10 s window is bucket-granular: 40 buckets of 250 ms aligned to the breaker's creation time, the current partial bucket included (as DESIGN §3 C01 states)",
        "virtual time is monotone; the clock is switched to virtual before a breaker is created",
        "the reference drop ratio for the statistical clause is the anchored SRE formula with K=1.5 and protection 5; only its frequency over >= 1000-2000 rejectable calls is compared, with very wide margins",
        "sequential histories: one call at a time per process in the model test (concurrent callers are covered by the -race run, where only schedule-independent clauses are asserted and phases are arranged so that no outcome can age out half-way through a phase)",
        "a rejected call is recognised by req/handler/invoker not having run; the returned error of an admitted call is not compared with req's error except 'not ErrServiceUnavailable unless req returned it'",
        "NoBreakerFor(name) is an opt-out: on such a name only the per-call clauses and 'never cut off while total-5 <= 1.5*accepts' are asserted (not that it trips), plus that other names keep their breaker; the contents of the error window / alert text, Breaker.Name(), and gRPC codes above Unauthenticated are not asserted",
        "sqlx statement-level methods (Prepare's StmtSession) and RawDB do not go through the conn's breaker in this tree and are outside the monitor; RollingWindow options (IgnoreCurrentBucket, other sizes) are not reachable through the breaker",
        "an error without a gRPC status has the code gRPC's own status.Code gives it (Unknown; a wrapped benign status its own code or Unknown) and is therefore benign; raw context.Canceled is benign; raw context.DeadlineExceeded and wrapped failing statuses are left unasserted (newer gRPC maps them to failing codes, older ones to Unknown)",
        "HTTP: a handler that wrote status >= 500 and then panicked must count as a failure (keeps failing => cut off); for a handler that panics after writing < 500 or nothing only 'some outcome' would be required, which is not observable black-box through BreakerHandler and is not asserted",
        "a Redis pipeline is benign when every reply is a value or redis.Nil (judged by the content of the error, whatever carries it); pipelines mixing redis.Nil with real error replies are not asserted (which reply decides is left open); pipelines with only ERR replies must trip",
        "sql.ErrTxDone reported by Transact's own Commit (body committed early / driver says so) is the benign ErrTxDone outcome; the composite error of a failed body plus a Rollback that reports ErrTxDone is NOT asserted (on this tree it is recorded as a failure even when the body's error is sql.ErrNoRows; noted in the evidence); lib/store/sqlc adds no breaker of its own (it calls the sqlx.Conn and redis entry points covered here / by C12) and has no table",
        "an admitted call whose req itself returns ErrServiceUnavailable must not run the fallback and must hand req's error to the caller",
    ],
    runs=[
        dict(pkg="./lib/breaker", run="^TestVerifC01(Model|TripRecover|Disabled)$", **_T),
        dict(pkg="./lib/breaker", run="^TestVerifC01Race$", race=True, count_thorough=5, **_T),
        dict(pkg="./api/handler", run="^TestVerifC01", **_T),
        dict(pkg="./api/httpc", run="^TestVerifC01", **_T),
        dict(pkg="./rpc/internal/codes", run="^TestVerifC01", **_T),
        dict(pkg="./rpc/internal/clientinterceptors", run="^TestVerifC01", **_T),
        dict(pkg="./rpc/internal/serverinterceptors", run="^TestVerifC01", **_T),
        dict(pkg="./lib/store/sqlx", run="^TestVerifC01", **_T),
        dict(pkg="./lib/store/redis", run="^TestVerifC01", **_T),
    ],
)
