SPEC = dict(
    level="exploration",
    technique="tmp",
    level_text="tmp",
    level_note="tmp",
    design_ref="DESIGN.md §3 C01",
    assumptions=[],
    runs=[
        dict(pkg="./lib/breaker", run="^TestVerifC01(Model|TripRecover)$", timeout=240, timeout_thorough=1500),
        dict(pkg="./lib/breaker", run="^TestVerifC01Race$", race=True, timeout=240, timeout_thorough=1500, count_thorough=5),
        dict(pkg="./api/handler", run="^TestVerifC01", timeout=240, timeout_thorough=1500),
        dict(pkg="./rpc/internal/codes", run="^TestVerifC01", timeout=240, timeout_thorough=1500),
        dict(pkg="./rpc/internal/clientinterceptors", run="^TestVerifC01", timeout=240, timeout_thorough=1500),
        dict(pkg="./rpc/internal/serverinterceptors", run="^TestVerifC01", timeout=240, timeout_thorough=1500),
        dict(pkg="./lib/store/sqlx", run="^TestVerifC01", timeout=240, timeout_thorough=1500),
        dict(pkg="./lib/store/redis", run="^TestVerifC01", timeout=240, timeout_thorough=1500),
    ],
)
