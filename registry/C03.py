SPEC = dict(
    level="exploration",
    technique="runtime monitor: reference segment matcher run side by side with the real router (patRouter.ServeHTTP and engine.bindRoutes-composed chain) over seeded route tables and near-exhaustive request paths per table; the same oracle per request on batches served from 8 goroutines at once under the Go race detector",
    level_text="For each generated route table (valid, duplicate, dirty and invalid registrations) every registration's acceptance and every request's outcome (which handler ran, pathvar.Vars, 404/405 + Allow set) is compared with an independent 25-line matcher over the accepted patterns: all paths up to depth 3 over a 4-letter alphabet plus sampled deeper and dirty paths, 4 methods, ~660 requests per table, 1500 tables quick / 120k thorough. Held = no deviation observed on those tables.",
    level_note="Trusts path.Clean as the definition of 'cleaned path', the reference matcher, httptest. Patterns with repeated parameter names and parameter names that are empty are not generated (unspecified). When several parameterised patterns match, any of them is accepted (the statement only fixes the all-literal winner).",
    design_ref="DESIGN.md §3 C03",
    assumptions=[
        "parameter names unique within a pattern and non-empty",
        "when several patterns with parameters match, any of them may be chosen",
        "custom not-found / not-allowed handlers replace the default answer (covered by existing unit tests); the monitor checks the default 404/405 path",
    ],
    runs=[
        dict(name="router", pkg="./api/router", run="^TestVerifC03Router$", timeout=240, timeout_thorough=3000),
        dict(name="concurrent", pkg="./api/router", run="^TestVerifC03ConcurrentRace$", race=True, timeout=300, timeout_thorough=3000),
        dict(name="server", pkg="./api", run="^TestVerifC03", timeout=240, timeout_thorough=3000),
    ],
)
