SPEC = dict(
    level="exploration",
    technique="runtime monitor: reference renderer written from the statement compared with FileNamingFormat over generated templates/identifiers; digest comparison across repeats, goroutines and a second process with different locale/TZ/cwd; round-trip and no-panic monitors for stringx",
    level_text="150k (quick) / 6M (thorough) generated template x identifier pairs: valid templates (one go-word and one designer-word in lower/UPPER/Title casing, with prefix/through/suffix drawn from ASCII punctuation, multi-byte letters, letters whose case mapping changes byte length and invalid UTF-8) must render exactly as the reference; templates lacking a word, reversed, or mixed-case must be rejected; arbitrary byte strings must not panic and must give the same digest when recomputed, from 8 goroutines and from a child process under tr_TR locale / other TZ / other cwd. stringx: ToSnake(ToCamel(s)) == s on [a-z]+(_[a-z]+)*, no panic on arbitrary bytes.",
    level_note="Trusts Go's strings.ToUpper/ToLower/unicode.ToTitle as the definition of the three casings applied to identifier words; the reference locates the template words by ASCII case-insensitive byte search. Identifiers with non-ASCII upper-case letters and templates with several occurrences of a word are only in the no-panic/determinism class (the statement does not fix their rendering). tools/god leaf packages are built with a synthetic modfile (x/text, testify, vk only).",
    design_ref="DESIGN.md §3 C20",
    assumptions=[
        "exactly one case-insensitive ASCII occurrence of 'go' and of 'designer' in templates of the exact-comparison classes",
        "round trip asserted on words of lower-case ASCII letters only; words with digits are observed, not asserted",
    ],
    runs=[
        dict(module="toolsgod", pkg="./util/format", run="^TestVerifC20(Format|Determinism)$", timeout=240, timeout_thorough=3000),
        dict(module="toolsgod", pkg="./util/stringx", run="^TestVerifC20Stringx$", timeout=240, timeout_thorough=3000),
        dict(module="toolsgod", pkg="./util/stringx", run="^TestVerifC20StringxRace$", race=True, timeout=240, timeout_thorough=1200),
        dict(module="toolsgod", pkg="./util/format", run="^TestVerifC20FormatRace$", race=True, timeout=240, timeout_thorough=1200),
        dict(module="toolsgod", pkg="./config", run="^TestVerifC20", timeout=120, timeout_thorough=600),
    ],
)
