SPEC = dict(
    level="exploration",
    technique="runtime monitor: twin-server differential testing (wrapper on miniredis A / shards vs raw go-redis v8 on miniredis B) driven by seeded command histories, with a hand-written method->go-redis correspondence table, per-command keyspace comparison through miniredis' direct API, reflection-based API coverage accounting, and a breaker-clause scenario on a virtual clock",
    level_text="Every exported command method of redis.Redis (102 methods, plain and Ctx forms, incl. blocking pops, scripts, pipelines, geo, bitmaps, HLL) and every method of kv.Store (1-4 shards, random weights) is executed side by side with the equivalent go-redis call of a hand-written table on generated histories (quick: 220 + 120 histories of 50-300 commands over 6 keys, ~55k command pairs; thorough x25). Compared: return values after the documented conversion, error class (nil / redis.Nil / context.Canceled / server error text), the state of every alphabet key (type, value, exact TTL) after each command and the whole keyspace (union of shards) after each history; 1 in 25 Ctx calls uses a cancelled context. Breaker clause: 10k redis.Nil results and 10k cancelled calls never produce ErrServiceUnavailable; after the server is closed connection failures must produce a rejection; per method: 60 consecutive cancelled-context calls (every Ctx method of redis.Redis and kv.Store) and 60 consecutive redis.Nil outcomes (every Nil-capable method, plain and Ctx form) on a fresh breaker never produce a rejection. Held = no deviation on the executions observed, not a proof.",
    level_note="Trusts: miniredis v2.23.1 as the server on both sides (where it deviates from real Redis both sides deviate alike; GEOHASH is not implemented and is only checked to fail identically), go-redis v8.11.5 as the reference client, the 900-line table. Type=cluster is exercised in every 8th redis history against a single miniredis (reference: go-redis ClusterClient), a password on the fourth kv shard, an expired-deadline context on 1 in 50 Ctx calls, slow-call threshold 0 in every third history, and a per-method call against closed servers; TLS, multi-node clusters, network faults other than a closed listener, and concurrent callers are not exercised. The per-address breaker also counts server error replies (WRONGTYPE...) as failures; a resulting rejection is re-issued on a fresh instance and counted, not flagged.",
    design_ref="DESIGN.md §3 C12",
    assumptions=[
        "SetEx/SetNXEx are called with seconds >= 1 and the ...AndLimit methods with page >= 0 and size >= 0 (size 0 = empty page); other values are outside the documented domain and not asserted",
        "only Get and GetSet swallow redis.Nil (zero value, nil error); every other method must return redis.Nil for an absent key/member",
        "TTL returns whole seconds and keeps the command's codes -2 (no such key) and -1 (no expiry), which go-redis reports as time.Duration(-2)/(-1)",
        "nil and empty slices/maps are the same result; iteration order of sets, hashes and key listings is unspecified (compared as multisets); SPop/SRandMember are compared by membership, cardinality and effect",
        "results accompanying a non-nil error are compared too (go-redis returns zero values there)",
        "a breaker rejection (ErrServiceUnavailable) caused by accumulated server error replies is legitimate; the command is re-issued on a fresh wrapper instance",
        "server error replies neither must nor must not trip the breaker (not asserted); only redis.Nil, context.Canceled and connection failures are",
        "histories are sequential: the property quantifies over inputs, histories and configurations, not schedules, so there is no -race run",
    ],
    runs=[
        dict(pkg="./lib/store/redis", run="^TestVerifC12(Redis|Breaker|BreakerPerMethodRedis)$", timeout=300, timeout_thorough=3000),
        dict(pkg="./lib/store/redis", run="^TestVerifC12(KV|BreakerPerMethodKV|Outage)$", timeout=300, timeout_thorough=3000),
    ],
)
