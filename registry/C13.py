SPEC = dict(
    level="exploration",
    technique="runtime monitor: metamorphic oracles (totality, determinism, minimal disruption) and a reference murmur3 ring compared with ConsistentHash.Get over a 2000-key population after every membership operation; versioned reader/writer run under the Go race detector; key placement of kv.New / cache.New observed on miniredis shards",
    level_text="After each of 20-40 membership operations per seeded history (Add/AddWithWeight/AddWithReplicas/Remove; string, struct, Stringer nodes; weights 0-150) all 2000 keys are looked up and compared with the previous assignment (only keys of the removed node move; keys move only to the added node), with a reference ring built from the documented scheme, with a ring built from scratch, and share-vs-weight bounds. Race run: Get results taken inside one stable membership version must equal that version's reference ring. Integration: keys written through kv.New and cache.New land on the miniredis the reference ring predicts. Held = no deviation on the histories observed.",
    level_note="Trusts murmur3 (same library as the code under test, used as the documented default hash), lang.Repr semantics for string/struct/Stringer nodes as re-stated in the harness, miniredis. Histories where two nodes collide on a ring position are cut (outside the claim). Proportionality is a wide calibrated band (0.20..2.8 of the expected share with >= 40 virtual nodes per member), not a statistical proof.",
    design_ref="DESIGN.md §3 C13",
    assumptions=[
        "default hash function; ring-position collisions between nodes outside the claim",
        "share bounds calibrated empirically (observed ratio range is written to the evidence) with margin",
    ],
    runs=[
        dict(pkg="./lib/hash", run="^TestVerifC13Ring", timeout=240, timeout_thorough=3000),
        dict(pkg="./lib/hash", run="^TestVerifC13(Writers)?Race", race=True, timeout=240, timeout_thorough=3000),
        dict(pkg="./lib/store/kv", run="^TestVerifC13", timeout=240, timeout_thorough=1800),
        dict(pkg="./lib/store/cache", run="^TestVerifC13", timeout=240, timeout_thorough=1800),
    ],
)
