SPEC = dict(
    level="exploration",
    technique="runtime monitor: reference LRU + expiry-window model side by side with the real Cache whose wheel is driven tick-by-tick by a harness ticker; concurrent Take single-flight oracle and porcupine register linearizability under the Go race detector",
    level_text="Sequential seeded histories (Set/SetWithExpire/Get/Del/Take ok|error/ticks, limit 0-5, expiries 2-700 s over the 300-slot wheel) compare after every operation the cache's key set, Get/Take results and fetch counts with a reference LRU, and after every tick check that a key disappears only inside its 95%-105% expiry window (in ticks after its last Set) and is gone at the end of it. Concurrent part under -race: gated/racing Take rounds (never two fetches of a key in flight, all callers get a fetch result, errors not cached) and porcupine-checked Set/Get/Del histories. Held = no deviation in the executions observed.",
    level_note="Trusts the Go runtime/race detector, porcupine, the tick barrier (RemoveTimer of an unused key + runtime.NumGoroutine quiescence), in-package reads of Cache.data under the cache's own lock. The cache's expiry jitter PRNG is not controlled: inside the 95-105% window either outcome is accepted. Concurrent Set/Del timer races are outside the statement (concurrency is claimed for Take callers only).",
    design_ref="DESIGN.md §3 C17",
    assumptions=[
        "expiries >= 2 s (jittered delay never below one wheel interval)",
        "sequential histories except for Take callers, as the quantifier states",
        "drop time measured in wheel ticks since the last Set; window [floor(0.95e), floor(1.05e)] ticks",
    ],
    runs=[
        dict(pkg="./lib/collection", run="^TestVerifC17(Model|SubTickAndSharedOptions)", timeout=300, timeout_thorough=3000),
        dict(pkg="./lib/collection", run="^TestVerifC17.*Race$", race=True, timeout=300, timeout_thorough=3000),
    ],
)
