_FP = [
    # widen the window between taking tw.mu and flushing the handler's response
    dict(file="api/handler/timeouthandler.go", anchor="dst := w.Header()", name="c02FpFlush", where="before"),
    # ... between taking tw.mu and writing the timeout response
    dict(file="api/handler/timeouthandler.go", anchor="httpx.ErrorCtx(r.Context(), w, ctx.Err()", name="c02FpTimeout", where="before"),
    # ... and inside timeoutWriter.Write while it holds tw.mu
    dict(file="api/handler/timeouthandler.go", anchor="if tw.timedOut {", name="c02FpWrite", where="before", occurrence=1),
]

SPEC = dict(
    level="exploration",
    technique="runtime monitor: scripted handlers (header/status/write/block-on-ctx/park/panic steps) behind the real REST chain (engine.bindRoutes, httptest recorder), behind real loopback servers (api.NewServer+Start, net/http client), behind the composed unary interceptors and behind a real gRPC server (rpc/internal.NewServer+Start); the oracle derives the only legal response(s) from the script; gated handlers for deterministic verdicts, either-outcome for racing ones; Go race detector on the REST chain and the RPC interceptors; thorough tier adds gofail sleeps inside timeoutHandler/timeoutWriter",
    level_text="Every response is compared with the response the script owes: fast handler (route timeout 60 s or none) => exactly its status, headers set before the first write, and body; gated late handler (blocks on ctx.Done(), parked until the client holds its response) => 503 'Request Timeout' (499 when the client context is cancelled) without any handler header/byte, late writes refused with ErrHandlerTimeout, client's view unchanged afterwards; racing handler (writes straddle a 20-100 ms deadline) => complete handler response or timeout response, never a mixture; panic => 500 empty / committed status, route still serves; MaxConns parked handlers => next k requests 503 without running, gauge <= MaxConns, tokens returned; Content-Length > MaxBytes <=> 413 without running. Loopback servers: same classes over real connections, every request gets a response (no EOF), next request on the same connection intact. RPC: handler result / DeadlineExceeded / Canceled / Internal. Quick ~4k REST scenarios + ~3k RPC calls. Held = no deviation on the executions observed, not a proof.",
    level_note="Trusts: Go runtime, net/http, httptest recorder, grpc-go, the 60-line script model. The deadline is real time (context.WithTimeout, no seam): verdicts rest on gates and sequence stamps, never on elapsed time; 'fast' cases use a 60 s route timeout; a live-server request without any response is a violation only if it reproduces in all 5 attempts (http.Server write deadline is real time). Breaker/shedder rejections (503 without entering the handler on a route whose breaker has seen failures) are C01's subject and tolerated; workloads keep every breaker below its threshold (<= 5 failures per route/method). Headers set after the first write, the body of a 500/413/MaxConns-503, and MaxConns across different routes (the latch is per route) are not asserted. The MaxConns gauge only counts handlers that finish before their deadline. 'Late writes are refused with ErrHandlerTimeout' is the mechanism the property anchors name (timeoutWriter refuses after timedOut); it has no client-visible effect by itself.",
    design_ref="DESIGN.md §3 C02",
    assumptions=[
        "a 503 with empty body whose handler never ran, on a route/method whose breaker has recorded >=500 results, may be a circuit-breaker rejection (property C01) and is not judged",
        "MaxConns is enforced per route (one latch per bound route, as in upstream go-zero); no assertion across routes",
        "handler statuses are taken from codes that allow a body (no 1xx/204/304); handlers do not set Content-Length themselves and late handlers do not read the request body",
        "CpuThreshold=0 (adaptive shedder off), no JWT/signature middlewares: only the chain members named by the property are active besides tracing/log/prometheus/metric/breaker/gunzip pass-throughs",
        "live servers: a request that gets no response is reported only when 5 of 5 gated attempts fail (3 parallel + 2 sequential); isolated misses are recorded as notes",
        "client-cancel (499 / Canceled) is observed with the recorder / direct interceptor call only: a real client that cancelled cannot see the server's answer",
        "scheduling stalls > 10 s of a single goroutine while the rest of the process runs do not occur (patience before a gate is opened for a hung client)",
    ],
    runs=[
        dict(pkg="./api", run="^TestVerifC02(Chain|Server)$", timeout=300, timeout_thorough=1800),
        dict(pkg="./api", run="^TestVerifC02RaceChain$", race=True, timeout=300, timeout_thorough=2400),
        dict(pkg="./rpc/internal/serverinterceptors", run="^TestVerifC02RPCChain$", race=True, timeout=300, timeout_thorough=1800),
        dict(pkg="./rpc/internal", run="^TestVerifC02RPCServer$", timeout=300, timeout_thorough=1800),
        dict(pkg="./rpc", run="^TestVerifC02RPCEntry$", timeout=300, timeout_thorough=1800),
        dict(pkg="./api", run="^TestVerifC02RaceChain$", race=True, thorough_only=True, timeout_thorough=2400,
             env_thorough={"C02_BATCH_BASE": "200000", "C02_BATCHES": "120"},
             failpoints=_FP, failpoint_terms="c02FpFlush=25.0%sleep(3);c02FpTimeout=25.0%sleep(3);c02FpWrite=10.0%sleep(1)"),
    ],
)
