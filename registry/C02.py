SPEC = dict(
    level="exploration",
    technique="runtime monitor (draft)",
    level_text="draft",
    level_note="draft",
    design_ref="DESIGN.md §3 C02",
    assumptions=[],
    runs=[
        dict(pkg="./api", run="^TestVerifC02(Chain|Server)$", timeout=240, timeout_thorough=1500),
        dict(pkg="./api", run="^TestVerifC02Race", race=True, timeout=300, timeout_thorough=2400),
    ],
)
